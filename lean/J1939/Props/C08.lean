/-
  C08 — Transfer outcome does not depend on where reception pre-empts the job thread (J1939-21, then J1939-22).
  Model: Model/Pre21.lean — the background pass iterates over key snapshots of the two session tables; the receive
  thread handles a frame before the K-th session lookup (K arbitrary).  Tied to j1939_21.py by lock-step
  correspondence in which the REAL pass is pre-empted from a line tracer at exactly those points.
  Proved for the code as repaired by D19 (a session removed since the snapshot is skipped).
-/
import J1939.Model.Pre21
import J1939.Lemmas.PyDict
import J1939.Lemmas.Tactics
import J1939.Lemmas.Dll21Tick
import J1939.Props.C07
import J1939.Model.Pre22
import J1939.Lemmas.Dll22Tick
import J1939.Lemmas.EcuPass
namespace J1939.Props.C08
open J1939 J1939.Gen J1939.Dll21 J1939.Pre21

theorem keys_set_of_get? {α} (d : PyDict α) (k : Nat) (v w : α) (h : d.get? k = some w) : (d.set k v).keys = d.keys := by
  induction d with
  | nil => simp [PyDict.get?] at h
  | cons p d ih =>
    unfold PyDict.set
    by_cases hp : p.1 == k
    · simp only [hp, if_true, PyDict.keys, List.map_cons]
      have : p.1 = k := by simpa using hp
      rw [this]
    · simp only [hp, Bool.false_eq_true, if_false, PyDict.keys, List.map_cons]
      have h' : PyDict.get? d k = some w := by
        simpa [PyDict.get?, List.find?_cons, hp] using h
      have := ih h'
      simp only [PyDict.keys] at this
      rw [this]

/-- THE RECEIVE THREAD NEVER ADDS OR REMOVES A SEND SESSION: whatever frame it handles (any identifier, any data,
    also when the handler raises) the keys of the send table — and their order — are the same; so the snapshot the
    background pass took of them stays valid while it is pre-empted -/
theorem c08_rx_keeps_snd_keys (cfg : Cfg) (s : St) (now : Nat) (acc : Nat → Bool) (canId : Nat) (data : List Nat) :
    (notify cfg s now acc canId data).st.snd.keys = s.snd.keys := by
  unfold notify
  dsimp only
  repeat' split
  all_goals first
    | rfl
    | (unfold processDt; dsimp only; (repeat' split) <;> rfl)
    | skip
  -- TP.CM
  unfold processCm
  dsimp only
  repeat' split
  all_goals first
    | rfl
    | (simp only; exact keys_set_of_get? _ _ _ _ (by assumption))

/-- the receive loop over ANY list of keys — a stale snapshot: keys that are gone are skipped (D19) — never raises,
    keeps the tables well-formed, asks for a wake-up in the future and does not touch the send table -/
theorem tickRcv_stale (now : Nat) (ks : List Nat) (s : St) (nw : Nat) (o : List Out) (hwf : WF s) (hnw : now < nw) :
    (tickRcv now ks s nw o).2.2.2 = none ∧ WF (tickRcv now ks s nw o).1 ∧ now < (tickRcv now ks s nw o).2.1 ∧
    (tickRcv now ks s nw o).1.snd = s.snd := by
  induction ks generalizing s nw o with
  | nil => exact ⟨rfl, hwf, hnw, rfl⟩
  | cons k ks ih =>
    unfold tickRcv
    cases hg : s.rcv.get? k with
    | none => simp only; exact ih s nw o hwf hnw
    | some buf =>
      simp only
      obtain ⟨h1, h2⟩ := tickRcvOne_spec now buf (hwf.2.2.1 k buf hg)
      have hnw' : now < (match (tickRcvOne now buf).2.2 with | some d => if nw > d then d else nw | none => nw) := by
        cases hd : (tickRcvOne now buf).2.2 with
        | none => exact hnw
        | some d => have := h2 d hd; simp only; split <;> omega
      cases hr : (tickRcvOne now buf).1 with
      | some r' => simp only; exact ih s _ _ hwf hnw'
      | none =>
        simp only
        have hwf' : WF { s with rcv := s.rcv.erase k } :=
          ⟨PyDict.keys_erase_nodup _ _ hwf.1, hwf.2.1, PyDict.all_erase _ _ _ hwf.2.2.1, hwf.2.2.2⟩
        exact ih { s with rcv := s.rcv.erase k } _ _ hwf' hnw'

/-- the send loop over a key list whose keys are all still present (they are: `c08_rx_keeps_snd_keys`) -/
theorem tickSnd_present (cfg : Cfg) (now : Nat) (hnow : 0 < now) (hc : CfgPos cfg) (ks : List Nat) (s : St) (nw : Nat) (o : List Out)
    (hks : ks.Nodup) (hpres : ∀ k ∈ ks, (s.snd.get? k).isSome = true) (hwf : WF s) (hnw : now < nw) :
    (tickSnd cfg now ks s nw o).2.2.2 = none ∧ WF (tickSnd cfg now ks s nw o).1 ∧ now < (tickSnd cfg now ks s nw o).2.1 ∧
    (tickSnd cfg now ks s nw o).1.rcv = s.rcv ∧
    (∀ k, k ∉ ks → (tickSnd cfg now ks s nw o).1.snd.get? k = s.snd.get? k) ∧
    (∀ k, ((tickSnd cfg now ks s nw o).1.snd.get? k).isSome = true → (s.snd.get? k).isSome = true) := by
  induction ks generalizing s nw o with
  | nil => exact ⟨rfl, hwf, hnw, rfl, fun _ _ => rfl, fun _ h => h⟩
  | cons k ks ih =>
    obtain ⟨hkn, hks'⟩ := List.nodup_cons.mp hks
    unfold tickSnd
    have hk := hpres k (List.mem_cons_self ..)
    cases hg : s.snd.get? k with
    | none => rw [hg] at hk; cases hk
    | some buf =>
      simp only
      obtain ⟨h0, h1, h2⟩ := tickSndOne_spec cfg now buf hnow hc (hwf.2.2.2 k buf hg)
      rw [h0]
      simp only
      have hnw' : now < (match (tickSndOne cfg now buf).2.2.2 with | some d => if nw > d then d else nw | none => nw) := by
        cases hd : (tickSndOne cfg now buf).2.2.2 with
        | none => exact hnw
        | some d => have := h2 d hd; simp only; split <;> omega
      cases hr : (tickSndOne cfg now buf).1 with
      | some b' =>
        obtain ⟨hok, _⟩ := h1 b' hr
        simp only
        have hwf' : WF { s with snd := s.snd.set k b' } :=
          ⟨hwf.1, PyDict.keys_set_nodup _ _ _ hwf.2.1, hwf.2.2.1, PyDict.all_set _ _ _ _ hwf.2.2.2 hok⟩
        obtain ⟨a1, a2, a3, a4, a5, a6⟩ := ih { s with snd := s.snd.set k b' } _ (o ++ (tickSndOne cfg now buf).2.1) hks'
          (by intro k' hk'
              have hne : k' ≠ k := by intro h; subst h; exact hkn hk'
              simp only; rw [PyDict.get?_set_ne _ _ _ _ hne]; exact hpres k' (List.mem_cons_of_mem _ hk'))
          hwf' hnw'
        refine ⟨a1, a2, a3, a4, ?_, ?_⟩
        · intro k' hk'
          have hne : k' ≠ k := by intro h; subst h; exact hk' (List.mem_cons_self ..)
          refine (a5 k' (by intro h; exact hk' (List.mem_cons_of_mem _ h))).trans ?_
          simp only; rw [PyDict.get?_set_ne _ _ _ _ hne]
        · intro k' hk'
          have := a6 k' hk'
          by_cases hne : k' = k
          · subst hne; rw [hg]; rfl
          · simp only at this; rw [PyDict.get?_set_ne _ _ _ _ hne] at this; exact this
      | none =>
        simp only
        have hwf' : WF { s with snd := s.snd.erase k } :=
          ⟨hwf.1, PyDict.keys_erase_nodup _ _ hwf.2.1, hwf.2.2.1, PyDict.all_erase _ _ _ hwf.2.2.2⟩
        obtain ⟨a1, a2, a3, a4, a5, a6⟩ := ih { s with snd := s.snd.erase k } _ (o ++ (tickSndOne cfg now buf).2.1) hks'
          (by intro k' hk'
              have hne : k' ≠ k := by intro h; subst h; exact hkn hk'
              simp only; rw [PyDict.get?_erase_ne _ _ _ hne]; exact hpres k' (List.mem_cons_of_mem _ hk'))
          hwf' hnw'
        refine ⟨a1, a2, a3, a4, ?_, ?_⟩
        · intro k' hk'
          have hne : k' ≠ k := by intro h; subst h; exact hk' (List.mem_cons_self ..)
          refine (a5 k' (by intro h; exact hk' (List.mem_cons_of_mem _ h))).trans ?_
          simp only; rw [PyDict.get?_erase_ne _ _ _ hne]
        · intro k' hk'
          have := a6 k' hk'
          by_cases hne : k' = k
          · subst hne; rw [hg]; rfl
          · simp only at this; rw [PyDict.get?_erase_ne _ _ _ hne] at this; exact this

theorem mem_keys_iff_get? {α} (d : PyDict α) (k : Nat) : k ∈ d.keys ↔ (d.get? k).isSome = true := by
  constructor
  · exact PyDict.get?_isSome_of_mem_keys d k
  · intro h
    cases hg : d.get? k with
    | none => rw [hg] at h; cases h
    | some v => exact mem_keys_of_get? d k v hg

/-- C08 (J1939-21), THE PRE-EMPTED PASS SURVIVES: from a well-formed state, whatever frame the receive thread handles
    before whichever session lookup of the pass (K arbitrary: inside the receive loop, between the loops, inside the
    send loop, after the last lookup) — the background thread raises nothing (it stays alive), the tables are
    well-formed afterwards and the wake-up it asks for is strictly in the future (no busy spin) -/
theorem c08_pre_pass_ok (cfg : Cfg) (acc : Nat → Bool) (s : St) (now K : Nat) (frame : Nat × List Nat)
    (hnow : 0 < now) (hc : CfgPos cfg) (hwf : WF s) :
    (tickPre cfg acc s now K frame).err = none ∧ WF (tickPre cfg acc s now K frame).st ∧
    now < (tickPre cfg acc s now K frame).wakeup := by
  have hidle : 0 < Const.Ecu.idle_wakeup := by decide
  unfold tickPre
  dsimp only
  split
  · -- inside the receive loop
    obtain ⟨r1, r2, r3, _⟩ := tickRcv_stale now (s.rcv.keys.take K) s (now + Const.Ecu.idle_wakeup) [] hwf (by omega)
    generalize tickRcv now (s.rcv.keys.take K) s (now + Const.Ecu.idle_wakeup) [] = res1 at *
    obtain ⟨s1, nw1, o1, e1⟩ := res1
    simp only at r1 r2 r3
    subst r1
    simp only
    have hwf2 : WF (rx cfg acc now frame s1).1 := J1939.Props.C07.c07_wf_notify cfg s1 now acc frame.1 frame.2 hnow r2
    generalize rx cfg acc now frame s1 = res2 at *
    obtain ⟨s2, ro, re⟩ := res2
    simp only at hwf2 ⊢
    obtain ⟨q1, q2, q3, _⟩ := tickRcv_stale now (s.rcv.keys.drop K) s2 nw1 [] hwf2 r3
    generalize tickRcv now (s.rcv.keys.drop K) s2 nw1 [] = res3 at *
    obtain ⟨s3, nw3, o3, e3⟩ := res3
    simp only at q1 q2 q3
    subst q1
    simp only
    obtain ⟨t1, t2, t3, _⟩ := tickSnd_present cfg now hnow hc s3.snd.keys s3 nw3 o3 q2.2.1
      (fun k hk => PyDict.get?_isSome_of_mem_keys _ _ hk) q2 q3
    generalize tickSnd cfg now s3.snd.keys s3 nw3 o3 = res4 at *
    obtain ⟨s4, nw4, o4, e4⟩ := res4
    exact ⟨t1, t2, t3⟩
  · -- inside the send loop, or after the last lookup
    obtain ⟨r1, r2, r3, _⟩ := tickRcv_stale now s.rcv.keys s (now + Const.Ecu.idle_wakeup) [] hwf (by omega)
    generalize tickRcv now s.rcv.keys s (now + Const.Ecu.idle_wakeup) [] = res1 at *
    obtain ⟨s1, nw1, o1, e1⟩ := res1
    simp only at r1 r2 r3
    subst r1
    simp only
    have hnd : s1.snd.keys.Nodup := r2.2.1
    have hsplit := List.take_append_drop (K - s.rcv.keys.length) s1.snd.keys
    have hnd' : (s1.snd.keys.take (K - s.rcv.keys.length) ++ s1.snd.keys.drop (K - s.rcv.keys.length)).Nodup := by rw [hsplit]; exact hnd
    obtain ⟨hndT, hndD, hdisj⟩ := List.nodup_append.mp hnd'
    obtain ⟨q1, q2, q3, _, q5, _⟩ := tickSnd_present cfg now hnow hc (s1.snd.keys.take (K - s.rcv.keys.length)) s1 nw1 o1 hndT
      (fun k hk => PyDict.get?_isSome_of_mem_keys _ _ (List.mem_of_mem_take hk)) r2 r3
    generalize tickSnd cfg now (s1.snd.keys.take (K - s.rcv.keys.length)) s1 nw1 o1 = res2 at *
    obtain ⟨s2, nw2, o2, e2⟩ := res2
    simp only at q1 q2 q3 q5
    subst q1
    simp only
    have hwf3 : WF (rx cfg acc now frame s2).1 := J1939.Props.C07.c07_wf_notify cfg s2 now acc frame.1 frame.2 hnow q2
    have hkeys3 : (rx cfg acc now frame s2).1.snd.keys = s2.snd.keys := c08_rx_keeps_snd_keys cfg s2 now acc frame.1 frame.2
    generalize rx cfg acc now frame s2 = res3 at *
    obtain ⟨s3, ro, re⟩ := res3
    simp only at hwf3 hkeys3 ⊢
    have hpres : ∀ k ∈ s1.snd.keys.drop (K - s.rcv.keys.length), (s3.snd.get? k).isSome = true := by
      intro k hk
      have hnot : k ∉ s1.snd.keys.take (K - s.rcv.keys.length) := fun h => hdisj k h k hk rfl
      have h2 : (s2.snd.get? k).isSome = true := by
        rw [q5 k hnot]; exact PyDict.get?_isSome_of_mem_keys _ _ (List.mem_of_mem_drop hk)
      have : k ∈ s3.snd.keys := by rw [hkeys3]; exact (mem_keys_iff_get? _ _).mpr h2
      exact (mem_keys_iff_get? _ _).mp this
    obtain ⟨t1, t2, t3, _⟩ := tickSnd_present cfg now hnow hc (s1.snd.keys.drop (K - s.rcv.keys.length)) s3 nw2 [] hndD hpres hwf3 q3
    generalize tickSnd cfg now (s1.snd.keys.drop (K - s.rcv.keys.length)) s3 nw2 [] = res4 at *
    obtain ⟨s4, nw4, o4, e4⟩ := res4
    exact ⟨t1, t2, t3⟩

/-- NO PACKET IS LOST TO THE PASS: a receive session that is not yet due is left exactly as it is by the pass over any
    (stale or fresh) key list — the pass only ever removes sessions whose deadline has passed; so the reassembly done
    by the receive thread is the same wherever the pass is pre-empted -/
theorem c08_pass_keeps_live_sessions (now : Nat) (ks : List Nat) (s : St) (nw : Nat) (o : List Out) (k : Nat) (r : Rcv)
    (hg : s.rcv.get? k = some r) (hlive : now < r.deadline) : (tickRcv now ks s nw o).1.rcv.get? k = some r := by
  induction ks generalizing s nw o with
  | nil => exact hg
  | cons k' ks ih =>
    unfold tickRcv
    cases hg' : s.rcv.get? k' with
    | none => simp only; exact ih s nw o hg
    | some buf =>
      simp only
      cases hr : (tickRcvOne now buf).1 with
      | some r' => simp only; exact ih s _ _ hg
      | none =>
        simp only
        apply ih
        by_cases hkk : k = k'
        · -- the visited record is `r` itself: it is not due, so it is not removed — contradiction with `hr`
          subst hkk
          rw [hg] at hg'; cases hg'
          exfalso
          unfold tickRcvOne at hr
          have h1 : ¬ (r.deadline = 0) := by omega
          have h2 : r.deadline > now := hlive
          simp [h1, h2] at hr
        · simp only; rw [PyDict.get?_erase_ne _ _ _ hkk]; exact hg

/-- the send loop does not touch the receive table at all, and the receive loop does not touch the send table
    (`tickSnd_present` / `tickRcv_stale`): the two halves of the pass commute with each other's data -/
theorem c08_tickSnd_keeps_rcv (cfg : Cfg) (now : Nat) (ks : List Nat) (s : St) (nw : Nat) (o : List Out) :
    (tickSnd cfg now ks s nw o).1.rcv = s.rcv := by
  induction ks generalizing s nw o with
  | nil => rfl
  | cons k ks ih =>
    unfold tickSnd
    cases s.snd.get? k with
    | none => rfl
    | some buf =>
      simp only
      cases (tickSndOne cfg now buf).2.2.1 with
      | some e => cases (tickSndOne cfg now buf).1 <;> rfl
      | none => cases (tickSndOne cfg now buf).1 <;> (simp only; rw [ih])

/-- A WHOLE LIFE UNDER PRE-EMPTION: any history of application sends, received frames and background passes each of
    which is pre-empted at an arbitrary point by an arbitrary frame, at arbitrary (positive) times, keeps the tables
    well-formed — so by `c08_pre_pass_ok` no pass of the history raises: the background thread never dies -/
inductive Ev where
  | send (now dp pf ps prio sa : Nat) (data : List Nat)
  | rx (now canId : Nat) (data : List Nat)
  | pass (now K canId : Nat) (data : List Nat)

def Ev.now : Ev → Nat
  | .send n .. => n | .rx n .. => n | .pass n .. => n

def step (cfg : Cfg) (acc : Nat → Bool) (s : St) : Ev → St
  | .send now dp pf ps prio sa data => (sendPgn cfg s now dp pf ps prio sa data).1.st
  | .rx now canId data => (notify cfg s now acc canId data).st
  | .pass now K canId data => (tickPre cfg acc s now K (canId, data)).st

theorem c08_history_wf (cfg : Cfg) (acc : Nat → Bool) (hc : CfgPos cfg) (evs : List Ev) (s : St) (hwf : WF s)
    (hpos : ∀ e ∈ evs, 0 < e.now) : WF (evs.foldl (step cfg acc) s) := by
  induction evs generalizing s with
  | nil => exact hwf
  | cons e es ih =>
    simp only [List.foldl_cons]
    apply ih _ _ (fun e' he' => hpos e' (by simp [he']))
    have hp := hpos e (by simp)
    cases e with
    | send now dp pf ps prio sa data => exact J1939.Props.C07.c07_wf_sendPgn cfg s now dp pf ps prio sa data hp hwf
    | rx now canId data => exact J1939.Props.C07.c07_wf_notify cfg s now acc canId data hp hwf
    | pass now K canId data => exact (c08_pre_pass_ok cfg acc s now K (canId, data) hp hc hwf).2.1

theorem c08_thread_never_dies (cfg : Cfg) (acc : Nat → Bool) (hc : CfgPos cfg) (evs : List Ev) (hpos : ∀ e ∈ evs, 0 < e.now)
    (now K canId : Nat) (data : List Nat) (hnow : 0 < now) :
    (tickPre cfg acc (evs.foldl (step cfg acc) {}) now K (canId, data)).err = none :=
  (c08_pre_pass_ok cfg acc _ now K (canId, data) hnow hc (c08_history_wf cfg acc hc evs {} J1939.Props.C07.c07_wf_init hpos)).1

/-- what a handler result must satisfy: the tables are untouched, or a pass was requested, or the handler raised -/
def Rung (s : St) (r : Res) : Prop := r.st = s ∨ Out.wake ∈ r.outs ∨ r.err.isSome = true

/-- THE RECEIVE THREAD NEVER CHANGES A SESSION TABLE WITHOUT ASKING FOR A PASS: whatever frame it handles — also a
    CTS, an end-of-message acknowledgement or a peer abort for a session the background pass has just visited — either
    both tables are exactly as before or a wake-up request is among the outputs (or the handler raised); so a session
    the handler made due is picked up by a pass that follows at once, and `c07_pass_ok` says that pass leaves no
    overdue record: no session stays stuck behind a pre-empted pass -/
theorem c08_rx_change_wakes (cfg : Cfg) (s : St) (now : Nat) (acc : Nat → Bool) (canId : Nat) (data : List Nat) :
    Rung s (notify cfg s now acc canId data) := by
  unfold notify
  dsimp only
  repeat' split
  all_goals try (exact Or.inl rfl)
  · unfold processCm
    dsimp only
    repeat' split
    all_goals first
      | exact Or.inl rfl
      | (right; left; simp; done)
      | (right; right; rfl)
  · unfold processDt
    dsimp only
    repeat' split
    all_goals first
      | exact Or.inl rfl
      | (right; left; simp; done)
      | (right; right; rfl)

end J1939.Props.C08

namespace J1939.Props.C08
open J1939 J1939.Gen

/-! ## J1939-22 (FD) -/
section fd
open J1939.Dll22 J1939.Pre22

theorem processCm22_keeps (cfg : Cfg) (s : St) (now : Nat) (mid : MessageId) (dest : Nat) (data : List Nat) :
    (processCm cfg s now mid dest data).st.snd.keys = s.snd.keys ∧ (processCm cfg s now mid dest data).st.mpg = s.mpg := by
  unfold processCm
  dsimp only
  split
  · exact ⟨rfl, rfl⟩
  · split
    · exact ⟨rfl, rfl⟩
    · repeat' split
      all_goals first
        | exact ⟨rfl, rfl⟩
        | (refine ⟨?_, rfl⟩; simp only; exact keys_set_of_get? _ _ _ _ (by assumption))

theorem processDt22_keeps (s : St) (now : Nat) (mid : MessageId) (dest : Nat) (data : List Nat) :
    (processDt s now mid dest data).st.snd.keys = s.snd.keys ∧ (processDt s now mid dest data).st.mpg = s.mpg := by
  unfold processDt
  dsimp only
  repeat' split
  all_goals exact ⟨rfl, rfl⟩

/-- J1939-22: the receive thread never adds or removes a send session and never touches a multi-PG buffer -/
theorem c08_22_rx_keeps_snd_keys (cfg : Cfg) (s : St) (now : Nat) (acc : Nat → Bool) (canId : Nat) (data : List Nat) :
    (notify cfg s now acc canId data).st.snd.keys = s.snd.keys ∧ (notify cfg s now acc canId data).st.mpg = s.mpg := by
  unfold notify
  dsimp only
  repeat' split
  all_goals first
    | exact ⟨rfl, rfl⟩
    | exact processCm22_keeps ..
    | exact processDt22_keeps ..

theorem tickSnd_frame (cfg : Cfg) (now : Nat) (ks : List Nat) (s : St) (nw : Nat) (o : List Out) :
    (∀ k, k ∉ ks → (tickSnd cfg now ks s nw o).1.snd.get? k = s.snd.get? k) ∧ (tickSnd cfg now ks s nw o).1.mpg = s.mpg ∧
    (tickSnd cfg now ks s nw o).1.rcv = s.rcv := by
  induction ks generalizing s nw o with
  | nil => exact ⟨fun _ _ => rfl, rfl, rfl⟩
  | cons k ks ih =>
    unfold tickSnd
    cases hg : s.snd.get? k with
    | none => exact ⟨fun _ _ => rfl, rfl, rfl⟩
    | some buf =>
      simp only
      have happ : ∀ k', k' ≠ k → (sndApply s k (tickSndOne cfg now buf).1).snd.get? k' = s.snd.get? k' := by
        intro k' hne
        cases (tickSndOne cfg now buf).1 with
        | some b => exact PyDict.get?_set_ne _ _ _ _ hne
        | none => exact PyDict.get?_erase_ne _ _ _ hne
      have happ2 : (sndApply s k (tickSndOne cfg now buf).1).mpg = s.mpg ∧ (sndApply s k (tickSndOne cfg now buf).1).rcv = s.rcv := by
        cases (tickSndOne cfg now buf).1 <;> exact ⟨rfl, rfl⟩
      cases (tickSndOne cfg now buf).2.2.1 with
      | some e =>
        simp only
        exact ⟨fun k' hk' => happ k' (by intro h; subst h; exact hk' (List.mem_cons_self ..)), happ2.1, happ2.2⟩
      | none =>
        simp only
        cases hrel : release (sndApply s k (tickSndOne cfg now buf).1) (tickSndOne cfg now buf).2.2.2.2 with
        | none =>
          simp only
          exact ⟨fun k' hk' => happ k' (by intro h; subst h; exact hk' (List.mem_cons_self ..)), happ2.1, happ2.2⟩
        | some s2 =>
          simp only
          have hs2 : s2.snd = (sndApply s k (tickSndOne cfg now buf).1).snd ∧ s2.mpg = (sndApply s k (tickSndOne cfg now buf).1).mpg ∧
              s2.rcv = (sndApply s k (tickSndOne cfg now buf).1).rcv := by
            unfold release at hrel
            split at hrel
            · cases hrel; exact ⟨rfl, rfl, rfl⟩
            · simp only [Option.map_eq_some_iff] at hrel; obtain ⟨p, _, rfl⟩ := hrel; exact ⟨rfl, rfl, rfl⟩
            · simp only [Option.map_eq_some_iff] at hrel; obtain ⟨p, _, rfl⟩ := hrel; exact ⟨rfl, rfl, rfl⟩
          obtain ⟨i1, i2, i3⟩ := ih s2 _ _
          refine ⟨?_, by rw [i2, hs2.2.1, happ2.1], by rw [i3, hs2.2.2, happ2.2]⟩
          intro k' hk'
          rw [i1 k' (fun h => hk' (List.mem_cons_of_mem _ h)), hs2.1]
          exact happ k' (by intro h; subst h; exact hk' (List.mem_cons_self ..))

theorem tickMpg_frame (now : Nat) (ks : List Nat) (s : St) (nw : Nat) (o : List Out) :
    (∀ k, k ∉ ks → (tickMpg now ks s nw o).1.mpg.get? k = s.mpg.get? k) ∧ (tickMpg now ks s nw o).1.snd = s.snd := by
  induction ks generalizing s nw o with
  | nil => exact ⟨fun _ _ => rfl, rfl⟩
  | cons k ks ih =>
    unfold tickMpg
    cases hg : s.mpg.get? k with
    | none => exact ⟨fun _ _ => rfl, rfl⟩
    | some buf =>
      simp only
      split
      · obtain ⟨i1, i2⟩ := ih s (if nw > buf.deadline then buf.deadline else nw) o
        exact ⟨fun k' hk' => i1 k' (fun h => hk' (List.mem_cons_of_mem _ h)), i2⟩
      · split
        · exact ⟨fun _ _ => rfl, rfl⟩
        · rename_i f _
          obtain ⟨i1, i2⟩ := ih { s with mpg := s.mpg.erase k } nw (o ++ [.tx f])
          refine ⟨?_, i2⟩
          intro k' hk'
          rw [i1 k' (fun h => hk' (List.mem_cons_of_mem _ h))]
          exact PyDict.get?_erase_ne _ _ _ (by intro h; subst h; exact hk' (List.mem_cons_self ..))


theorem afterRcv_ok (cfg : Cfg) (acc : Nat → Bool) (now K : Nat) (frame : Nat × List Nat) (s1 : St) (nw1 : Nat) (pre : List Out)
    (hnow : 0 < now) (hc : CfgPos cfg) (hwf : WF s1) (hnw : now < nw1) :
    (afterRcv cfg acc now K frame s1 nw1 pre).err = none ∧ WF (afterRcv cfg acc now K frame s1 nw1 pre).st ∧
    now < (afterRcv cfg acc now K frame s1 nw1 pre).wakeup := by
  unfold afterRcv
  dsimp only
  have hsplitM := List.take_append_drop K s1.mpg.keys
  have hndM : (s1.mpg.keys.take K ++ s1.mpg.keys.drop K).Nodup := by rw [hsplitM]; exact hwf.mkeys
  obtain ⟨hndT, hndD, hdisj⟩ := List.nodup_append.mp hndM
  split
  · -- inside the multi-PG loop
    obtain ⟨m1, m2, m3⟩ := tickMpg_ok now (s1.mpg.keys.take K) s1 nw1 pre hndT
      (fun k hk => PyDict.get?_isSome_of_mem_keys _ _ (List.mem_of_mem_take hk)) hwf hnw
    obtain ⟨f1, _⟩ := tickMpg_frame now (s1.mpg.keys.take K) s1 nw1 pre
    generalize tickMpg now (s1.mpg.keys.take K) s1 nw1 pre = res2 at *
    obtain ⟨s2, nw2, o2, e2⟩ := res2
    simp only at m1 m2 m3 f1
    subst m1
    simp only
    have hwf3 : WF (rx cfg acc now frame s2).1 := notify_wf cfg s2 now acc frame.1 frame.2 hnow m2
    have hk3 := (c08_22_rx_keeps_snd_keys cfg s2 now acc frame.1 frame.2).2
    generalize hrx : rx cfg acc now frame s2 = res3 at *
    obtain ⟨s3, ro, re⟩ := res3
    have hmpg3 : s3.mpg = s2.mpg := by
      have : s3 = (notify cfg s2 now acc frame.1 frame.2).st := by
        have := congrArg (·.1) hrx; simpa [rx] using this.symm
      rw [this]; exact hk3
    simp only at hwf3 ⊢
    obtain ⟨q1, q2, q3⟩ := tickMpg_ok now (s1.mpg.keys.drop K) s3 nw2 [] hndD
      (by intro k hk
          have hnot : k ∉ s1.mpg.keys.take K := fun h => hdisj k h k hk rfl
          rw [hmpg3, f1 k hnot]
          exact PyDict.get?_isSome_of_mem_keys _ _ (List.mem_of_mem_drop hk)) hwf3 m3
    generalize tickMpg now (s1.mpg.keys.drop K) s3 nw2 [] = res4 at *
    obtain ⟨s4, nw4, o4, e4⟩ := res4
    simp only at q1 q2 q3
    subst q1
    simp only
    obtain ⟨t1, t2, t3⟩ := tickSnd_ok cfg now hc s4.snd.keys s4 nw4 o4 q2.sk (fun k hk => PyDict.get?_isSome_of_mem_keys _ _ hk) q2 q3
    generalize tickSnd cfg now s4.snd.keys s4 nw4 o4 = res5 at *
    obtain ⟨s5, nw5, o5, e5⟩ := res5
    exact ⟨t1, t2, t3⟩
  · -- inside the send loop, or after the last lookup
    obtain ⟨m1, m2, m3⟩ := tickMpg_ok now s1.mpg.keys s1 nw1 pre hwf.mkeys (fun k hk => PyDict.get?_isSome_of_mem_keys _ _ hk) hwf hnw
    generalize tickMpg now s1.mpg.keys s1 nw1 pre = res2 at *
    obtain ⟨s2, nw2, o2, e2⟩ := res2
    simp only at m1 m2 m3
    subst m1
    simp only
    have hsplit := List.take_append_drop (K - s1.mpg.keys.length) s2.snd.keys
    have hnd' : (s2.snd.keys.take (K - s1.mpg.keys.length) ++ s2.snd.keys.drop (K - s1.mpg.keys.length)).Nodup := by rw [hsplit]; exact m2.sk
    obtain ⟨sT, sD, sdisj⟩ := List.nodup_append.mp hnd'
    obtain ⟨q1, q2, q3⟩ := tickSnd_ok cfg now hc (s2.snd.keys.take (K - s1.mpg.keys.length)) s2 nw2 o2 sT
      (fun k hk => PyDict.get?_isSome_of_mem_keys _ _ (List.mem_of_mem_take hk)) m2 m3
    obtain ⟨g1, _, _⟩ := tickSnd_frame cfg now (s2.snd.keys.take (K - s1.mpg.keys.length)) s2 nw2 o2
    generalize tickSnd cfg now (s2.snd.keys.take (K - s1.mpg.keys.length)) s2 nw2 o2 = res3 at *
    obtain ⟨s3, nw3, o3, e3⟩ := res3
    simp only at q1 q2 q3 g1
    subst q1
    simp only
    have hwf4 : WF (rx cfg acc now frame s3).1 := notify_wf cfg s3 now acc frame.1 frame.2 hnow q2
    have hkeys4 : (rx cfg acc now frame s3).1.snd.keys = s3.snd.keys := (c08_22_rx_keeps_snd_keys cfg s3 now acc frame.1 frame.2).1
    generalize rx cfg acc now frame s3 = res4 at *
    obtain ⟨s4, ro, re⟩ := res4
    simp only at hwf4 hkeys4 ⊢
    have hpres : ∀ k ∈ s2.snd.keys.drop (K - s1.mpg.keys.length), (s4.snd.get? k).isSome = true := by
      intro k hk
      have hnot : k ∉ s2.snd.keys.take (K - s1.mpg.keys.length) := fun h => sdisj k h k hk rfl
      have h3 : (s3.snd.get? k).isSome = true := by
        rw [g1 k hnot]; exact PyDict.get?_isSome_of_mem_keys _ _ (List.mem_of_mem_drop hk)
      have : k ∈ s4.snd.keys := by rw [hkeys4]; exact (mem_keys_iff_get? _ _).mpr h3
      exact (mem_keys_iff_get? _ _).mp this
    obtain ⟨t1, t2, t3⟩ := tickSnd_ok cfg now hc (s2.snd.keys.drop (K - s1.mpg.keys.length)) s4 nw3 [] sD hpres hwf4 q3
    generalize tickSnd cfg now (s2.snd.keys.drop (K - s1.mpg.keys.length)) s4 nw3 [] = res5 at *
    obtain ⟨s5, nw5, o5, e5⟩ := res5
    exact ⟨t1, t2, t3⟩

/-- C08 (J1939-22), THE PRE-EMPTED PASS SURVIVES: from a well-formed state, whatever frame the receive thread handles
    before whichever lookup of the pass (in the receive loop, the multi-PG loop, the send loop, between them, after the
    last) — the background thread raises nothing, the tables are well-formed afterwards and the wake-up it asks for is
    strictly in the future -/
theorem c08_22_pre_pass_ok (cfg : Cfg) (acc : Nat → Bool) (s : St) (now K : Nat) (frame : Nat × List Nat)
    (hnow : 0 < now) (hc : CfgPos cfg) (hwf : WF s) :
    (Pre22.tickPre cfg acc s now K frame).err = none ∧ WF (Pre22.tickPre cfg acc s now K frame).st ∧
    now < (Pre22.tickPre cfg acc s now K frame).wakeup := by
  have hidle : 0 < Const.Ecu.idle_wakeup := by decide
  unfold Pre22.tickPre
  dsimp only
  split
  · obtain ⟨r1, r2, r3⟩ := tickRcv_ok now (s.rcv.keys.take K) s (now + Const.Ecu.idle_wakeup) [] hwf (by omega)
    generalize tickRcv now (s.rcv.keys.take K) s (now + Const.Ecu.idle_wakeup) [] = res1 at *
    obtain ⟨s1, nw1, o1, e1⟩ := res1
    simp only at r1 r2 r3
    subst r1
    simp only
    have hwf2 : WF (rx cfg acc now frame s1).1 := notify_wf cfg s1 now acc frame.1 frame.2 hnow r2
    generalize rx cfg acc now frame s1 = res2 at *
    obtain ⟨s2, ro, re⟩ := res2
    simp only at hwf2 ⊢
    obtain ⟨q1, q2, q3⟩ := tickRcv_ok now (s.rcv.keys.drop K) s2 nw1 [] hwf2 r3
    generalize tickRcv now (s.rcv.keys.drop K) s2 nw1 [] = res3 at *
    obtain ⟨s3, nw3, o3, e3⟩ := res3
    simp only at q1 q2 q3
    subst q1
    simp only
    obtain ⟨m1, m2, m3⟩ := tickMpg_ok now s3.mpg.keys s3 nw3 o3 q2.mkeys (fun k hk => PyDict.get?_isSome_of_mem_keys _ _ hk) q2 q3
    generalize tickMpg now s3.mpg.keys s3 nw3 o3 = res4 at *
    obtain ⟨s4, nw4, o4, e4⟩ := res4
    simp only at m1 m2 m3
    subst m1
    simp only
    obtain ⟨t1, t2, t3⟩ := tickSnd_ok cfg now hc s4.snd.keys s4 nw4 o4 m2.sk (fun k hk => PyDict.get?_isSome_of_mem_keys _ _ hk) m2 m3
    generalize tickSnd cfg now s4.snd.keys s4 nw4 o4 = res5 at *
    obtain ⟨s5, nw5, o5, e5⟩ := res5
    exact ⟨t1, t2, t3⟩
  · obtain ⟨r1, r2, r3⟩ := tickRcv_ok now s.rcv.keys s (now + Const.Ecu.idle_wakeup) [] hwf (by omega)
    generalize tickRcv now s.rcv.keys s (now + Const.Ecu.idle_wakeup) [] = res1 at *
    obtain ⟨s1, nw1, o1, e1⟩ := res1
    simp only at r1 r2 r3
    subst r1
    simp only
    exact afterRcv_ok cfg acc now _ frame s1 nw1 o1 hnow hc r2 r3

end fd
/-! ### the blocking wait of the ECU thread -/
section wait
open J1939.Ecu J1939.Lemmas

/-- THE THREAD NEVER BLOCKS WITH A NON-POSITIVE TIMEOUT: whenever a pass of the ECU thread ends in the blocking wait on
    its wake-up queue, the timeout it passes is strictly positive — for every timer table, every clock, every wake-up time
    the data link layer asked for (also one that the receive path moved to "now" or into the past during the pass: then
    the pass does not block at all).  `queue.Queue.get` raises ValueError for a negative timeout, which would end the
    thread. -/
theorem c08_wait_timeout_positive (c : Core) (now clk dllWake d : Nat)
    (h : (c.pass now clk dllWake).2.2.1 = Sleep.sleep d) : 0 < d := by
  obtain ⟨hgt, _, hd⟩ := pass_sleep c now clk dllWake d h
  omega

/-- … and a wake-up time that is not in the future never blocks -/
theorem c08_no_wait_when_due (c : Core) (now clk dllWake : Nat)
    (h : (timerLoop now (c.timers.map (·.uid)) c clk dllWake []).2.2.1 ≤ (timerLoop now (c.timers.map (·.uid)) c clk dllWake []).2.1) :
    (c.pass now clk dllWake).2.2.1 = Sleep.spin := by
  unfold Core.pass
  simp only
  have : ¬ (timerLoop now (c.timers.map (·.uid)) c clk dllWake []).2.2.1 > (timerLoop now (c.timers.map (·.uid)) c clk dllWake []).2.1 := by omega
  simp only [this, if_false]
end wait

end J1939.Props.C08
