/-
  C04 — Address claiming yields unique addresses; the lowest NAME keeps a contested one.
  Handler-level theorems (every CA state, every received claim) about Model/Ca.lean, the network invariant and
  uniqueness at quiescence over every interleaving (Model/CaNet.lean), and the dispatch of claim frames to the CAs by
  both data link layers; settling in bounded real time is exercised by the oracle on real stacks.
-/
import J1939.Model.Ca
import J1939.Model.CaNet
import J1939.Lemmas.Tactics
import J1939.Lemmas.ConstCa
import J1939.Props.C13
import J1939.Props.C15
import J1939.Lemmas.Bam21
import J1939.Model.Dll22
namespace J1939.Props.C04
open J1939 J1939.Gen J1939.Ca J1939.Props.C13

/-- a CA is "at" address a: it announced it and is waiting for a veto or operational there -/
def At (c : Ca.Ca) (a : Nat) : Prop := (c.state = WAIT_VETO ∧ c.announced = a) ∨ (c.state = NORMAL ∧ c.addr = some a)

/-- a received claim concerns the CA only if it is for the address the CA is at -/
theorem c04_foreign_claim_ignored (c : Ca.Ca) (sa : Nat) (data : List Nat) (h : ¬ At c sa) :
    processAddressClaim c sa data = (c, []) := by
  unfold At at h
  unfold processAddressClaim
  have : ((c.state == NORMAL && some sa == c.addr) || (c.state == WAIT_VETO && sa == c.announced)) = false := by
    cases h1 : ((c.state == NORMAL && some sa == c.addr) || (c.state == WAIT_VETO && sa == c.announced)) with
    | false => rfl
    | true =>
      exfalso; apply h
      simp only [Bool.or_eq_true, Bool.and_eq_true, beq_iff_eq] at h1
      rcases h1 with ⟨a, b⟩ | ⟨a, b⟩
      · exact Or.inr ⟨a, b.symm⟩
      · exact Or.inl ⟨a, b.symm⟩
  simp [this]

/-- LEAVE ONLY FOR A LOWER NAME: a CA at `a` that receives a claim for `a` stays at `a` (and re-sends its own claim, so
    that the contender learns it lost) unless the contender's NAME is numerically smaller — so the CA with the lowest
    NAME among all contenders for `a` never leaves it -/
theorem c04_keeps_against_higher (c : Ca.Ca) (a : Nat) (data : List Nat) (hat : At c a)
    (hlow : Name.value c.name < Name.value (Name.ofBytes data)) :
    (processAddressClaim c a data).1 = c ∧ (processAddressClaim c a data).2 = [claimFrame c a] := by
  have hd := states_distinct
  unfold At at hat
  unfold processAddressClaim
  have hne : (Name.value c.name == Name.value (Name.ofBytes data)) = false := by simp; omega
  have hgt : ¬ Name.value c.name > Name.value (Name.ofBytes data) := by omega
  rcases hat with ⟨h1, h2⟩ | ⟨h1, h2⟩
  · have : (c.state == NORMAL) = false := by rw [h1]; simpa using hd.2.1
    simp [h1, h2, hne, hgt, this]
  · simp [h1, h2, hne, hgt]

theorem c04_same_name_ignored (c : Ca.Ca) (a : Nat) (data : List Nat)
    (heq : Name.value c.name = Name.value (Name.ofBytes data)) : processAddressClaim c a data = (c, []) := by
  unfold processAddressClaim
  split <;> simp [heq]

/-- LOSER BEHAVIOUR: against a lower NAME a single-address CA — and an arbitrary-address-capable one that has no
    address left to try (announced ≥ 253; repair of D28) — goes cannot-claim and says so from the null address 254; an
    arbitrary-address-capable CA with room left announces the next address and waits for a veto there; in all cases it no
    longer holds (or reports) the contested address -/
theorem c04_loser (c : Ca.Ca) (a : Nat) (data : List Nat) (hat : At c a)
    (hhigh : Name.value (Name.ofBytes data) < Name.value c.name) :
    ((c.name.arbitrary_address_capable = 0 ∨ 253 ≤ c.announced) →
        (processAddressClaim c a data).1.state = CANNOT_CLAIM ∧ (processAddressClaim c a data).1.addr = none ∧
        (processAddressClaim c a data).2 = [claimFrame c 254]) ∧
    ((c.name.arbitrary_address_capable ≠ 0 ∧ c.announced < 253) →
        (processAddressClaim c a data).1.state = WAIT_VETO ∧ (processAddressClaim c a data).1.announced = c.announced + 1 ∧
        (processAddressClaim c a data).1.addr = some 254 ∧
        (processAddressClaim c a data).2 = [claimFrame (processAddressClaim c a data).1 (c.announced + 1)]) ∧
    deviceAddress (processAddressClaim c a data).1 = some 254 := by
  have hd := states_distinct
  unfold At at hat
  have hne : (Name.value c.name == Name.value (Name.ofBytes data)) = false := by simp; omega
  have hcond : ((c.state == NORMAL && some a == c.addr) || (c.state == WAIT_VETO && a == c.announced)) = true := by
    rcases hat with ⟨h1, h2⟩ | ⟨h1, h2⟩ <;> simp [h1, h2]
  unfold processAddressClaim
  simp only [hcond, if_true, hne, Bool.false_eq_true, if_false, hhigh]
  refine ⟨?_, ?_, ?_⟩
  · intro h0
    have : (c.name.arbitrary_address_capable == 0 || decide (c.announced ≥ 253)) = true := by
      rcases h0 with h0 | h0
      · simp [h0]
      · simp [h0]
    simp [this]
  · intro h1
    have : (c.name.arbitrary_address_capable == 0 || decide (c.announced ≥ 253)) = false := by
      have e1 : (c.name.arbitrary_address_capable == 0) = false := by simpa using h1.1
      have e2 : decide (c.announced ≥ 253) = false := by simp; omega
      rw [e1, e2]; rfl
    simp [this]
  · by_cases h0 : (c.name.arbitrary_address_capable == 0 || decide (c.announced ≥ 253)) = true
    · simp only [h0, if_true, deviceAddress]
      have : (CANNOT_CLAIM != NORMAL) = true := by simpa using hd.2.2.1
      simp [this]
    · have : (c.name.arbitrary_address_capable == 0 || decide (c.announced ≥ 253)) = false := by
        cases h : (c.name.arbitrary_address_capable == 0 || decide (c.announced ≥ 253)) with
        | false => rfl
        | true => exact absurd h h0
      simp only [this, Bool.false_eq_true, if_false, deviceAddress]
      have : (WAIT_VETO != NORMAL) = true := by simpa using hd.2.1
      simp [this]

/-- BECOMING OPERATIONAL: a started CA with a preferred address announces it at its first timer tick — operational at
    once in the immediate range (0..127, 248..253), waiting one veto period (250 ms) in 128..247 — and turns
    operational at the tick after an unvetoed wait; once operational or cannot-claim the tick changes nothing -/
theorem c04_claim_progress (c : Ca.Ca) (p : Nat) (hp : c.preferred = some p) :
    (c.state = NONE → (p > 127 ∧ p < 248) →
        (claimAsync c).1.state = WAIT_VETO ∧ (claimAsync c).1.announced = p ∧ (claimAsync c).2.2 = Const.Claim.VETO ∧
        (claimAsync c).2.1 = [claimFrame (claimAsync c).1 p]) ∧
    (c.state = NONE → ¬ (p > 127 ∧ p < 248) →
        (claimAsync c).1.state = NORMAL ∧ (claimAsync c).1.addr = some p ∧ (claimAsync c).2.1 = [claimFrame (claimAsync c).1 p]) ∧
    (c.state = WAIT_VETO → (claimAsync c).1.state = NORMAL ∧ (claimAsync c).1.addr = some c.announced ∧ (claimAsync c).2.1 = []) ∧
    ((c.state = NORMAL ∨ c.state = CANNOT_CLAIM) → (claimAsync c).1 = c ∧ (claimAsync c).2.1 = []) := by
  have hd := states_distinct
  unfold claimAsync
  refine ⟨?_, ?_, ?_, ?_⟩
  · intro h1 h2; simp [h1, hp, h2.1, h2.2]; rfl
  · intro h1 h2
    have : (decide (p > 127) && decide (p < 248)) = false := by
      cases h : (decide (p > 127) && decide (p < 248)) with
      | false => rfl
      | true => exfalso; apply h2; simpa using h
    simp [h1, hp, this]; rfl
  · intro h1
    have : (c.state == NONE) = false := by rw [h1]; simpa using (Ne.symm hd.2.2.2.1)
    simp [h1, this]
  · intro h1
    rcases h1 with h1 | h1
    · have e1 : (c.state == NONE) = false := by rw [h1]; simpa using (Ne.symm hd.1)
      have e2 : (c.state == WAIT_VETO) = false := by rw [h1]; simpa using (Ne.symm hd.2.1)
      simp [e1, e2]
    · have e1 : (c.state == NONE) = false := by rw [h1]; simpa using (Ne.symm hd.2.2.2.2.1)
      have e2 : (c.state == WAIT_VETO) = false := by rw [h1]; simpa using (Ne.symm hd.2.2.2.2.2)
      simp [e1, e2]

/-- ARBITRATION IS ON THE TRUE 64-BIT NAMES: what a CA reads from the 8 bytes of a received claim is exactly the value of
    the NAME whose bytes were sent (C15 round trip) — so `<` in the handler is the comparison of the CAs' NAMEs -/
theorem c04_contender_value_exact (n : Name) (h : Lemmas.Name.WF n) :
    Name.value (Name.ofBytes (Name.bytes n)) = Name.value n := by
  rw [J1939.Props.C15.c15_name_ofBytes_bytes n h]

/-- the veto period is the reflected 250 ms -/
theorem c04_veto_period : Const.Claim.VETO = 250000 := by decide

/-! ## The network of CAs (Model/CaNet.lean): uniqueness at quiescence, the lowest NAME keeps the address -/
section net
open J1939.CaNet


/-- the timer tick of a CA that waits for a veto makes it operational at the announced address; an operational or
    cannot-claim CA is unchanged (whatever its preferred address) -/
theorem c04_claim_progress_any (c : Ca.Ca) :
    (c.state = WAIT_VETO → (claimAsync c).1.state = NORMAL ∧ (claimAsync c).1.addr = some c.announced ∧ (claimAsync c).2.1 = []) ∧
    ((c.state = NORMAL ∨ c.state = CANNOT_CLAIM) → (claimAsync c).1 = c ∧ (claimAsync c).2.1 = []) := by
  have hd := states_distinct
  unfold claimAsync
  refine ⟨?_, ?_⟩
  · intro h1
    have : (c.state == NONE) = false := by rw [h1]; simpa using (Ne.symm hd.2.2.2.1)
    simp [h1, this]
  · intro h1
    rcases h1 with h1 | h1
    · have e1 : (c.state == NONE) = false := by rw [h1]; simpa using (Ne.symm hd.1)
      have e2 : (c.state == WAIT_VETO) = false := by rw [h1]; simpa using (Ne.symm hd.2.1)
      simp [e1, e2]
    · have e1 : (c.state == NONE) = false := by rw [h1]; simpa using (Ne.symm hd.2.2.2.2.1)
      have e2 : (c.state == WAIT_VETO) = false := by rw [h1]; simpa using (Ne.symm hd.2.2.2.2.2)
      simp [e1, e2]

/-- the claim a CA at `a` puts on the bus, as the others receive it -/
def claimMsg (c : Ca.Ca) (a : Nat) : Msg := { sa := a, data := Name.bytes c.name }

theorem toMsg_claimFrame (c : Ca.Ca) (a : Nat) (h : a < 256) : toMsg (claimFrame c a) = claimMsg c a := by
  unfold toMsg claimFrame claimMsg
  simp only [Msg.mk.injEq, and_true]
  rw [J1939.Props.C15.c15_id_parse_compose, Lemmas.ofFields_eq]
  simp only
  omega

theorem claimAsync_name (c : Ca.Ca) : (claimAsync c).1.name = c.name := by
  unfold claimAsync; crack

theorem pac_name (c : Ca.Ca) (sa : Nat) (d : List Nat) : (processAddressClaim c sa d).1.name = c.name := by
  unfold processAddressClaim; crack

/-- whoever becomes "at" an address by a timer tick says so on the bus -/
theorem claimAsync_newly_at (c : Ca.Ca) (a : Nat) (h : At (claimAsync c).1 a) (hn : ¬ At c a) :
    (claimAsync c).2.1 = [claimFrame (claimAsync c).1 a] := by
  have hd := states_distinct
  by_cases h0 : c.state = NONE
  · cases hp : c.preferred with
    | none =>
      have : claimAsync c = (c, [], 500000) := by unfold claimAsync; simp [h0, hp]
      rw [this] at h; exact absurd h hn
    | some p =>
      obtain ⟨p1, p2, _, _⟩ := c04_claim_progress c p hp
      by_cases hr : p > 127 ∧ p < 248
      · obtain ⟨q1, q2, _, q4⟩ := p1 h0 hr
        have : a = p := by
          rcases h with ⟨_, e⟩ | ⟨e, _⟩
          · rw [q2] at e; exact e.symm
          · rw [q1] at e; exact absurd e hd.2.1
        rw [this]; exact q4
      · obtain ⟨q1, q2, q3⟩ := p2 h0 hr
        have : a = p := by
          rcases h with ⟨e, _⟩ | ⟨_, e⟩
          · rw [q1] at e; exact absurd e.symm hd.2.1
          · rw [q2] at e; exact (Option.some.inj e).symm
        rw [this]; exact q3
  · by_cases h1 : c.state = WAIT_VETO
    · have e0 : (c.state == NONE) = false := by simpa using h0
      have : claimAsync c = ({ c with addr := some c.announced, state := NORMAL }, [], 500000) := by
        unfold claimAsync; simp [e0, h1]
      rw [this] at h
      rcases h with ⟨e, _⟩ | ⟨_, e⟩
      · exact absurd e.symm hd.2.1
      · exact absurd (Or.inl ⟨h1, Option.some.inj e⟩) hn
    · have e0 : (c.state == NONE) = false := by simpa using h0
      have e1 : (c.state == WAIT_VETO) = false := by simpa using h1
      have : claimAsync c = (c, [], 500000) := by unfold claimAsync; simp [e0, e1]
      rw [this] at h; exact absurd h hn

/-- whoever becomes "at" an address while handling a claim says so on the bus -/
theorem pac_newly_at (c : Ca.Ca) (sa : Nat) (d : List Nat) (a : Nat) (h : At (processAddressClaim c sa d).1 a) (hn : ¬ At c a) :
    (processAddressClaim c sa d).2 = [claimFrame (processAddressClaim c sa d).1 a] := by
  have hd := states_distinct
  by_cases hat : At c sa
  · rcases Nat.lt_trichotomy (Name.value c.name) (Name.value (Name.ofBytes d)) with hlt | heq | hgt
    · rw [(c04_keeps_against_higher c sa d hat hlt).1] at h; exact absurd h hn
    · rw [c04_same_name_ignored c sa d heq] at h; exact absurd h hn
    · obtain ⟨l1, l2, _⟩ := c04_loser c sa d hat hgt
      by_cases hc : c.name.arbitrary_address_capable = 0 ∨ 253 ≤ c.announced
      · obtain ⟨s1, _, _⟩ := l1 hc
        rcases h with ⟨e, _⟩ | ⟨e, _⟩
        · rw [s1] at e; exact absurd e.symm hd.2.2.2.2.2
        · rw [s1] at e; exact absurd e hd.2.2.1
      · have hc' : c.name.arbitrary_address_capable ≠ 0 ∧ c.announced < 253 := by
          constructor
          · intro h'; exact hc (Or.inl h')
          · omega
        obtain ⟨s1, s2, _, s4⟩ := l2 hc'
        have : a = c.announced + 1 := by
          rcases h with ⟨_, e⟩ | ⟨e, _⟩
          · rw [s2] at e; exact e.symm
          · rw [s1] at e; exact absurd e hd.2.1
        rw [this]; exact s4
  · rw [c04_foreign_claim_ignored c sa d hat] at h; exact absurd h hn

/-- a CA that handles a claim for its address from a LOWER NAME is no longer at that address afterwards -/
theorem pac_loser_leaves (c : Ca.Ca) (a : Nat) (d : List Nat) (hat : At c a) (hinv : Inv c)
    (hlow : Name.value (Name.ofBytes d) < Name.value c.name) : ¬ At (processAddressClaim c a d).1 a := by
  have hd := states_distinct
  have ha : c.announced = a := by
    rcases hat with ⟨_, h⟩ | ⟨h1, h2⟩
    · exact h
    · have := hinv h1; rw [h2] at this; exact (Option.some.inj this).symm
  obtain ⟨l1, l2, _⟩ := c04_loser c a d hat hlow
  intro hat'
  by_cases hc : c.name.arbitrary_address_capable = 0 ∨ 253 ≤ c.announced
  · obtain ⟨s1, _, _⟩ := l1 hc
    rcases hat' with ⟨h, _⟩ | ⟨h, _⟩
    · rw [s1] at h; exact hd.2.2.2.2.2 h.symm
    · rw [s1] at h; exact hd.2.2.1 h
  · have hc' : c.name.arbitrary_address_capable ≠ 0 ∧ c.announced < 253 := by
      constructor
      · intro h; exact hc (Or.inl h)
      · omega
    obtain ⟨s1, s2, _, _⟩ := l2 hc'
    rcases hat' with ⟨_, h⟩ | ⟨h, _⟩
    · rw [s2] at h; omega
    · rw [s1] at h; exact hd.2.1 h

/-- THE NETWORK INVARIANT: NAMEs are well-formed, an operational CA holds the address it announced, and for any two
    nodes that are both "at" one address (announced it and wait for a veto, or operational there) with different NAMEs,
    the claim of the lower one is on its way to the higher one, or the claim of the higher one is on its way to the
    lower one (which will answer it with its own claim) -/
structure NetInv (n : Net) : Prop where
  wf : ∀ i, Lemmas.Name.WF (n.ca i).name
  inv : ∀ i, Inv (n.ca i)
  pair : ∀ i j a, i ≠ j → a < 256 → At (n.ca i) a → At (n.ca j) a → Name.value (n.ca i).name < Name.value (n.ca j).name →
    claimMsg (n.ca i) a ∈ n.q j ∨ claimMsg (n.ca j) a ∈ n.q i

/-- one node `k` acts: its CA becomes `c'`, its queue `qk'` (unchanged, or the head `popped` removed), everybody else
    receives `ms` -/
theorem pair_preserved (n : Net) (k : Nat) (c' : Ca.Ca) (qk' ms : List Msg) (popped : Option Msg) (h : NetInv n)
    (hname : c'.name = (n.ca k).name) (hinv : Inv c')
    (hq : n.q k = (match popped with | none => qk' | some m => m :: qk'))
    (hnew : ∀ a, a < 256 → At c' a → ¬ At (n.ca k) a → claimMsg c' a ∈ ms)
    (hhigh : ∀ m, popped = some m → ∀ a j, a < 256 → At (n.ca k) a → At c' a → m = claimMsg (n.ca j) a →
      Name.value (n.ca k).name < Name.value (n.ca j).name → claimMsg c' a ∈ ms)
    (hlow : ∀ m, popped = some m → ∀ a i, a < 256 → At (n.ca k) a → m = claimMsg (n.ca i) a →
      Name.value (n.ca i).name < Name.value (n.ca k).name → ¬ At c' a) :
    NetInv { ca := fun x => if x = k then c' else n.ca x, q := fun x => if x = k then qk' else n.q x ++ ms } := by
  have hmem : ∀ m, m ∈ n.q k → (popped = some m) ∨ m ∈ qk' := by
    intro m hm
    rw [hq] at hm
    cases popped with
    | none => exact Or.inr hm
    | some m0 =>
      simp only [List.mem_cons] at hm
      rcases hm with rfl | hm
      · exact Or.inl rfl
      · exact Or.inr hm
  have hcm : ∀ a, claimMsg c' a = claimMsg (n.ca k) a := by
    intro a; simp only [claimMsg, hname]
  refine ⟨?_, ?_, ?_⟩
  · intro i
    by_cases hi : i = k
    · simp only [hi, if_true, hname]; exact h.wf k
    · simp only [hi, if_false]; exact h.wf i
  · intro i
    by_cases hi : i = k
    · simp only [hi, if_true]; exact hinv
    · simp only [hi, if_false]; exact h.inv i
  · intro i j a hij ha hati hatj hlt
    by_cases hi : i = k
    · -- the lower NAME acts
      subst hi
      have hj : ¬ j = i := fun e => hij e.symm
      simp only [if_true, hj, if_false] at hati hatj hlt ⊢
      rw [hname] at hlt
      by_cases hold : At (n.ca i) a
      · rcases h.pair i j a hij ha hold hatj hlt with h1 | h2
        · left; rw [hcm]; exact List.mem_append_left _ h1
        · rcases hmem _ h2 with hp | hin
          · left; exact List.mem_append_right _ (hhigh _ hp a j ha hold hati rfl hlt)
          · right; exact hin
      · left; exact List.mem_append_right _ (hnew a ha hati hold)
    · by_cases hj : j = k
      · -- the higher NAME acts
        subst hj
        simp only [hi, if_false, if_true] at hati hatj hlt ⊢
        rw [hname] at hlt
        by_cases hold : At (n.ca j) a
        · rcases h.pair i j a hij ha hati hold hlt with h1 | h2
          · rcases hmem _ h1 with hp | hin
            · exact absurd hatj (hlow _ hp a i ha hold rfl hlt)
            · left; exact hin
          · right; rw [hcm]; exact List.mem_append_left _ h2
        · right; exact List.mem_append_right _ (hnew a ha hatj hold)
      · simp only [hi, hj, if_false] at hati hatj hlt ⊢
        rcases h.pair i j a hij ha hati hatj hlt with h1 | h2
        · left; exact List.mem_append_left _ h1
        · right; exact List.mem_append_left _ h2

theorem bcast_eq (q : Nat → List Msg) (i : Nat) (qi ms : List Msg) :
    bcast (fun x => if x = i then qi else q x) i ms = fun x => if x = i then qi else q x ++ ms := by
  funext x
  by_cases hx : x = i <;> simp [bcast, hx]

theorem bcast_eq' (q : Nat → List Msg) (i : Nat) (ms : List Msg) :
    bcast q i ms = fun x => if x = i then q i else q x ++ ms := by
  funext x
  by_cases hx : x = i <;> simp [bcast, hx]

/-- EVERY EVENT PRESERVES THE INVARIANT -/
theorem step_inv (n : Net) (e : CaNet.Ev) (h : NetInv n) : NetInv (step n e) := by
  cases e with
  | tick i =>
    simp only [step, bcast_eq']
    refine pair_preserved n i _ (n.q i) _ none h (claimAsync_name _) (c13_inv_claimAsync _ (h.inv i)) rfl ?_
      (fun m hm => by cases hm) (fun m hm => by cases hm)
    intro a ha hat hn
    rw [claimAsync_newly_at _ a hat hn]
    simp only [List.map_cons, List.map_nil, toMsg_claimFrame _ a ha, List.mem_singleton]
  | deliver i =>
    simp only [step]
    cases hq : n.q i with
    | nil => exact h
    | cons m rest =>
      simp only [bcast_eq]
      refine pair_preserved n i _ rest _ (some m) h (pac_name _ _ _) (c13_inv_addressClaim _ _ _ (h.inv i)) hq ?_ ?_ ?_
      · intro a ha hat hn
        rw [pac_newly_at _ _ _ a hat hn]
        simp only [List.map_cons, List.map_nil, toMsg_claimFrame _ a ha, List.mem_singleton]
      · intro m' hm' a j ha hold _ hmj hlt
        cases hm'
        have hsa : m.sa = a := by rw [hmj]; rfl
        have hdata : m.data = Name.bytes (n.ca j).name := by rw [hmj]; rfl
        have hv : Name.value (Name.ofBytes m.data) = Name.value (n.ca j).name := by
          rw [hdata]; exact c04_contender_value_exact _ (h.wf j)
        obtain ⟨k1, k2⟩ := c04_keeps_against_higher (n.ca i) a m.data hold (by rw [hv]; exact hlt)
        rw [hsa, k1, k2]
        simp only [List.map_cons, List.map_nil, toMsg_claimFrame _ a ha, List.mem_singleton]
      · intro m' hm' a i' ha hold hmi hlt
        cases hm'
        have hsa : m.sa = a := by rw [hmi]; rfl
        have hdata : m.data = Name.bytes (n.ca i').name := by rw [hmi]; rfl
        have hv : Name.value (Name.ofBytes m.data) = Name.value (n.ca i').name := by
          rw [hdata]; exact c04_contender_value_exact _ (h.wf i')
        rw [hsa]
        exact pac_loser_leaves (n.ca i) a m.data hold (h.inv i) (by rw [hv]; exact hlt)
  | request i sa dest data =>
    simp only [step]
    split
    · rename_i f _
      simp only [bcast_eq']
      have := pair_preserved n i (n.ca i) (n.q i) [toMsg f] none h rfl (h.inv i) rfl
        (fun a _ hat hn => absurd hat hn) (fun m hm => by cases hm) (fun m hm => by cases hm)
      have e : (fun x => if x = i then n.ca i else n.ca x) = n.ca := by
        funext x; by_cases hx : x = i <;> simp [hx]
      rw [e] at this
      exact this
    · exact h

/-- … hence every reachable state satisfies it -/
theorem run_inv (n : Net) (es : List CaNet.Ev) (h : NetInv n) : NetInv (CaNet.run n es) := by
  induction es generalizing n with
  | nil => exact h
  | cons e es ih => exact ih _ (step_inv n e h)

/-- a network in which nobody has started claiming yet (any number of nodes, any NAMEs, any preferred addresses,
    arbitrary-address-capable or not) -/
def Fresh (n : Net) : Prop :=
  (∀ i, (n.ca i).state = NONE) ∧ (∀ i, Lemmas.Name.WF (n.ca i).name) ∧ ∀ i, n.q i = []

theorem fresh_inv (n : Net) (h : Fresh n) : NetInv n := by
  have hd := states_distinct
  obtain ⟨h1, h2, _⟩ := h
  refine ⟨h2, fun i hn => absurd ((h1 i).symm.trans hn) hd.1, ?_⟩
  intro i j a _ _ hat
  rcases hat with ⟨e, _⟩ | ⟨e, _⟩
  · exact absurd ((h1 i).symm.trans e) hd.2.2.2.1
  · exact absurd ((h1 i).symm.trans e) hd.1

/-- UNIQUE ADDRESSES AT QUIESCENCE (network level): start from any network in which nobody has claimed yet; let claim
    timers fire, claims be delivered (per-receiver bus order) and requests for address claimed be answered in ANY
    interleaving, for any number of nodes.  Whenever all claims on the bus have been handled, two different nodes that
    are both "at" the same address — operational there, or waiting for a veto on it — have the same NAME; with pairwise
    different NAMEs (the property's premise) no two CAs hold, or are about to hold, the same address -/
theorem c04_unique_at_quiescence (n0 : Net) (h0 : Fresh n0) (es : List CaNet.Ev) (i j a : Nat) (hij : i ≠ j) (ha : a < 256)
    (hquiet : ∀ k, (CaNet.run n0 es).q k = [])
    (hi : At ((CaNet.run n0 es).ca i) a) (hj : At ((CaNet.run n0 es).ca j) a) :
    Name.value ((CaNet.run n0 es).ca i).name = Name.value ((CaNet.run n0 es).ca j).name := by
  have hinv := run_inv n0 es (fresh_inv n0 h0)
  rcases Nat.lt_trichotomy (Name.value ((CaNet.run n0 es).ca i).name) (Name.value ((CaNet.run n0 es).ca j).name) with hlt | heq | hgt
  · rcases hinv.pair i j a hij ha hi hj hlt with h | h
    · rw [hquiet j] at h; cases h
    · rw [hquiet i] at h; cases h
  · exact heq
  · rcases hinv.pair j i a (fun e => hij e.symm) ha hj hi hgt with h | h
    · rw [hquiet i] at h; cases h
    · rw [hquiet j] at h; cases h

/-- the premises are satisfiable: a fresh network of any size exists -/
example : Fresh { ca := fun k => Ca.new (Name.ofValue (k % 1000)) (some 128) false, q := fun _ => [] } :=
  ⟨fun _ => rfl, fun _ => Lemmas.name_ofValue_wf _, fun _ => rfl⟩

/-- THE LOWEST NAME KEEPS A CONTESTED ADDRESS (network level): a node that is "at" address `a` is still at `a` after ANY
    event of the network, unless the event is the node itself handling a claim for `a` from a numerically LOWER NAME -/
theorem c04_at_kept_by_step (n : Net) (h : NetInv n) (e : CaNet.Ev) (i a : Nat) (hat : At (n.ca i) a)
    (hnolower : ∀ m rest, e = .deliver i → n.q i = m :: rest → m.sa = a →
      Name.value (n.ca i).name ≤ Name.value (Name.ofBytes m.data)) :
    At ((step n e).ca i) a := by
  have hd := states_distinct
  cases e with
  | tick k =>
    simp only [step]
    by_cases hk : i = k
    · subst hk
      simp only [if_true]
      rcases hat with ⟨h1, h2⟩ | ⟨h1, h2⟩
      · obtain ⟨q1, q2, _⟩ := (c04_claim_progress_any (n.ca i)).1 h1
        exact Or.inr ⟨q1, by rw [q2, h2]⟩
      · rw [((c04_claim_progress_any (n.ca i)).2 (Or.inl h1)).1]; exact Or.inr ⟨h1, h2⟩
    · simp only [hk, if_false]; exact hat
  | deliver k =>
    simp only [step]
    cases hq : n.q k with
    | nil => exact hat
    | cons m rest =>
      simp only
      by_cases hk : i = k
      · subst hk
        simp only [if_true]
        by_cases hsa : m.sa = a
        · have hle := hnolower m rest rfl hq hsa
          rw [hsa]
          rcases Nat.lt_or_eq_of_le hle with hlt | heq
          · rw [(c04_keeps_against_higher _ a m.data hat hlt).1]; exact hat
          · rw [c04_same_name_ignored _ a m.data heq]; exact hat
        · have hnot : ¬ At (n.ca i) m.sa := by
            intro hat2
            rcases hat with ⟨h1, h2⟩ | ⟨h1, h2⟩ <;> rcases hat2 with ⟨g1, g2⟩ | ⟨g1, g2⟩
            · exact hsa (g2.symm.trans h2)
            · exact hd.2.1 (h1.symm.trans g1)
            · exact hd.2.1 (g1.symm.trans h1)
            · rw [h2] at g2; exact hsa (Option.some.inj g2).symm
          rw [c04_foreign_claim_ignored _ _ _ hnot]; exact hat
      · simp only [hk, if_false]; exact hat
  | request k sa dest data =>
    simp only [step]
    split <;> exact hat


end net

/-! ### the data link layers hand every claim frame to the CAs -/

theorem mask_claim : (60928 + 255) &&& 130816 = 60928 := by decide

/-- THE BUS REACHES EVERY CA: the frame `_send_address_claimed` builds (PF 238 to the global address, from any source
    address incl. 254), received by ANY stack on either data link layer, is handed on as an address claim from that
    source with its 8 bytes — whatever the receiving stack's CAs accept (`acc` arbitrary: a CA that is still waiting, has
    no address or cannot claim accepts nothing, yet sees the claim), in any state of the layer, changing nothing in it.
    This is the delivery step `CaNet.step` takes for granted. -/
theorem c04_claim_dispatch (cfg21 : Dll21.Cfg) (s21 : Dll21.St) (cfg22 : Dll22.Cfg) (s22 : Dll22.St) (now : Nat) (acc : Nat → Bool)
    (c : Ca.Ca) (a : Nat) (ha : a < 256) :
    Dll21.notify cfg21 s21 now acc (claimFrame c a).id (claimFrame c a).data = { st := s21, outs := [.claim a (Name.bytes c.name)] } ∧
    Dll22.notify cfg22 s22 now acc (claimFrame c a).id (claimFrame c a).data = { st := s22, outs := [.claim a (Name.bytes c.name)] } := by
  have hG : Const.Addr.GLOBAL = 255 := rfl
  obtain ⟨h1, _, h3⟩ := Dll21.tp_id_parse 6 238 255 a (by omega) (by omega) (by omega) ha
  have hid : (claimFrame c a).id = MessageId.can_id (MessageId.ofFields 6 (PGN.value (PGN.ofFields 0 238 255)) a) := rfl
  have hp2 : PGN.is_pdu2_format { data_page := 0, pdu_format := 238, pdu_specific := 255 } = false := by decide
  have hnpv : Tp21.notify_pgn_value { data_page := 0, pdu_format := 238, pdu_specific := 255 } = Const.PGN.ADDRESSCLAIM := by decide
  have hne : (Const.PGN.ADDRESSCLAIM == Const.PGN.FEFF_MULTI_PG) = false := by decide
  constructor
  · unfold Dll21.notify
    simp only [hid] 
    simp only [h1, h3, hp2, hnpv, hG, Bool.false_eq_true, if_false, bne_self_eq_false, Bool.false_and, beq_self_eq_true, if_true]
    rfl
  · unfold Dll22.notify
    simp only [hid]
    simp only [h1, h3, hp2, hnpv, hne, hG, Bool.false_eq_true, if_false, bne_self_eq_false, Bool.false_and, beq_self_eq_true, if_true]
    rfl
end J1939.Props.C04
