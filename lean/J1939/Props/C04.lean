/-
  C04 — Address claiming yields unique addresses; the lowest NAME keeps a contested one.
  Handler-level theorems (every CA state, every received claim) about Model/Ca.lean; the network-level statements
  (uniqueness at quiescence, settling) are exercised by the oracle on real stacks, see MANIFEST level note.
-/
import J1939.Model.Ca
import J1939.Lemmas.Tactics
import J1939.Lemmas.ConstCa
import J1939.Props.C13
import J1939.Props.C15
namespace J1939.Props.C04
open J1939 J1939.Gen J1939.Ca J1939.Props.C13

/-- a CA is "at" address a: it announced it and is waiting for a veto or operational there -/
def At (c : Ca.Ca) (a : Nat) : Prop := (c.state = WAIT_VETO ∧ c.announced = a) ∨ (c.state = NORMAL ∧ c.addr = some a)

/-- a received claim concerns the CA only if it is for the address the CA is at -/
theorem c04_foreign_claim_ignored (c : Ca.Ca) (sa : Nat) (data : List Nat) (h : ¬ At c sa) :
    processAddressClaim c sa data = (c, []) := by
  unfold At at h
  unfold processAddressClaim
  have : ((c.state == NORMAL && some sa == c.addr) || (c.state == WAIT_VETO && sa == c.announced)) = false := by
    cases h1 : ((c.state == NORMAL && some sa == c.addr) || (c.state == WAIT_VETO && sa == c.announced)) with
    | false => rfl
    | true =>
      exfalso; apply h
      simp only [Bool.or_eq_true, Bool.and_eq_true, beq_iff_eq] at h1
      rcases h1 with ⟨a, b⟩ | ⟨a, b⟩
      · exact Or.inr ⟨a, b.symm⟩
      · exact Or.inl ⟨a, b.symm⟩
  simp [this]

/-- LEAVE ONLY FOR A LOWER NAME: a CA at `a` that receives a claim for `a` stays at `a` (and re-sends its own claim, so
    that the contender learns it lost) unless the contender's NAME is numerically smaller — so the CA with the lowest
    NAME among all contenders for `a` never leaves it -/
theorem c04_keeps_against_higher (c : Ca.Ca) (a : Nat) (data : List Nat) (hat : At c a)
    (hlow : Name.value c.name < Name.value (Name.ofBytes data)) :
    (processAddressClaim c a data).1 = c ∧ (processAddressClaim c a data).2 = [claimFrame c a] := by
  have hd := states_distinct
  unfold At at hat
  unfold processAddressClaim
  have hne : (Name.value c.name == Name.value (Name.ofBytes data)) = false := by simp; omega
  have hgt : ¬ Name.value c.name > Name.value (Name.ofBytes data) := by omega
  rcases hat with ⟨h1, h2⟩ | ⟨h1, h2⟩
  · have : (c.state == NORMAL) = false := by rw [h1]; simpa using hd.2.1
    simp [h1, h2, hne, hgt, this]
  · simp [h1, h2, hne, hgt]

theorem c04_same_name_ignored (c : Ca.Ca) (a : Nat) (data : List Nat)
    (heq : Name.value c.name = Name.value (Name.ofBytes data)) : processAddressClaim c a data = (c, []) := by
  unfold processAddressClaim
  split <;> simp [heq]

/-- LOSER BEHAVIOUR: against a lower NAME a single-address CA — and an arbitrary-address-capable one that has no
    address left to try (announced ≥ 253; repair of D28) — goes cannot-claim and says so from the null address 254; an
    arbitrary-address-capable CA with room left announces the next address and waits for a veto there; in all cases it no
    longer holds (or reports) the contested address -/
theorem c04_loser (c : Ca.Ca) (a : Nat) (data : List Nat) (hat : At c a)
    (hhigh : Name.value (Name.ofBytes data) < Name.value c.name) :
    ((c.name.arbitrary_address_capable = 0 ∨ 253 ≤ c.announced) →
        (processAddressClaim c a data).1.state = CANNOT_CLAIM ∧ (processAddressClaim c a data).1.addr = none ∧
        (processAddressClaim c a data).2 = [claimFrame c 254]) ∧
    ((c.name.arbitrary_address_capable ≠ 0 ∧ c.announced < 253) →
        (processAddressClaim c a data).1.state = WAIT_VETO ∧ (processAddressClaim c a data).1.announced = c.announced + 1 ∧
        (processAddressClaim c a data).1.addr = some 254 ∧
        (processAddressClaim c a data).2 = [claimFrame (processAddressClaim c a data).1 (c.announced + 1)]) ∧
    deviceAddress (processAddressClaim c a data).1 = some 254 := by
  have hd := states_distinct
  unfold At at hat
  have hne : (Name.value c.name == Name.value (Name.ofBytes data)) = false := by simp; omega
  have hcond : ((c.state == NORMAL && some a == c.addr) || (c.state == WAIT_VETO && a == c.announced)) = true := by
    rcases hat with ⟨h1, h2⟩ | ⟨h1, h2⟩ <;> simp [h1, h2]
  unfold processAddressClaim
  simp only [hcond, if_true, hne, Bool.false_eq_true, if_false, hhigh]
  refine ⟨?_, ?_, ?_⟩
  · intro h0
    have : (c.name.arbitrary_address_capable == 0 || decide (c.announced ≥ 253)) = true := by
      rcases h0 with h0 | h0
      · simp [h0]
      · simp [h0]
    simp [this]
  · intro h1
    have : (c.name.arbitrary_address_capable == 0 || decide (c.announced ≥ 253)) = false := by
      have e1 : (c.name.arbitrary_address_capable == 0) = false := by simpa using h1.1
      have e2 : decide (c.announced ≥ 253) = false := by simp; omega
      rw [e1, e2]; rfl
    simp [this]
  · by_cases h0 : (c.name.arbitrary_address_capable == 0 || decide (c.announced ≥ 253)) = true
    · simp only [h0, if_true, deviceAddress]
      have : (CANNOT_CLAIM != NORMAL) = true := by simpa using hd.2.2.1
      simp [this]
    · have : (c.name.arbitrary_address_capable == 0 || decide (c.announced ≥ 253)) = false := by
        cases h : (c.name.arbitrary_address_capable == 0 || decide (c.announced ≥ 253)) with
        | false => rfl
        | true => exact absurd h h0
      simp only [this, Bool.false_eq_true, if_false, deviceAddress]
      have : (WAIT_VETO != NORMAL) = true := by simpa using hd.2.1
      simp [this]

/-- BECOMING OPERATIONAL: a started CA with a preferred address announces it at its first timer tick — operational at
    once in the immediate range (0..127, 248..253), waiting one veto period (250 ms) in 128..247 — and turns
    operational at the tick after an unvetoed wait; once operational or cannot-claim the tick changes nothing -/
theorem c04_claim_progress (c : Ca.Ca) (p : Nat) (hp : c.preferred = some p) :
    (c.state = NONE → (p > 127 ∧ p < 248) →
        (claimAsync c).1.state = WAIT_VETO ∧ (claimAsync c).1.announced = p ∧ (claimAsync c).2.2 = Const.Claim.VETO ∧
        (claimAsync c).2.1 = [claimFrame (claimAsync c).1 p]) ∧
    (c.state = NONE → ¬ (p > 127 ∧ p < 248) →
        (claimAsync c).1.state = NORMAL ∧ (claimAsync c).1.addr = some p ∧ (claimAsync c).2.1 = [claimFrame (claimAsync c).1 p]) ∧
    (c.state = WAIT_VETO → (claimAsync c).1.state = NORMAL ∧ (claimAsync c).1.addr = some c.announced ∧ (claimAsync c).2.1 = []) ∧
    ((c.state = NORMAL ∨ c.state = CANNOT_CLAIM) → (claimAsync c).1 = c ∧ (claimAsync c).2.1 = []) := by
  have hd := states_distinct
  unfold claimAsync
  refine ⟨?_, ?_, ?_, ?_⟩
  · intro h1 h2; simp [h1, hp, h2.1, h2.2]; rfl
  · intro h1 h2
    have : (decide (p > 127) && decide (p < 248)) = false := by
      cases h : (decide (p > 127) && decide (p < 248)) with
      | false => rfl
      | true => exfalso; apply h2; simpa using h
    simp [h1, hp, this]; rfl
  · intro h1
    have : (c.state == NONE) = false := by rw [h1]; simpa using (Ne.symm hd.2.2.2.1)
    simp [h1, this]
  · intro h1
    rcases h1 with h1 | h1
    · have e1 : (c.state == NONE) = false := by rw [h1]; simpa using (Ne.symm hd.1)
      have e2 : (c.state == WAIT_VETO) = false := by rw [h1]; simpa using (Ne.symm hd.2.1)
      simp [e1, e2]
    · have e1 : (c.state == NONE) = false := by rw [h1]; simpa using (Ne.symm hd.2.2.2.2.1)
      have e2 : (c.state == WAIT_VETO) = false := by rw [h1]; simpa using (Ne.symm hd.2.2.2.2.2)
      simp [e1, e2]

/-- ARBITRATION IS ON THE TRUE 64-BIT NAMES: what a CA reads from the 8 bytes of a received claim is exactly the value of
    the NAME whose bytes were sent (C15 round trip) — so `<` in the handler is the comparison of the CAs' NAMEs -/
theorem c04_contender_value_exact (n : Name) (h : Lemmas.Name.WF n) :
    Name.value (Name.ofBytes (Name.bytes n)) = Name.value n := by
  rw [J1939.Props.C15.c15_name_ofBytes_bytes n h]

/-- the veto period is the reflected 250 ms -/
theorem c04_veto_period : Const.Claim.VETO = 250000 := by decide

end J1939.Props.C04
