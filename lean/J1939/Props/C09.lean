/-
  C09 — Originator obeys flow control and pacing; responder never over-grants.   (J1939-21 part, Model/Dll21.lean)
  Single-step theorems for EVERY state/record/frame; by induction over the events of a session they give the trace
  statements: no DT before the first CTS, at most the granted number after each CTS, none after a hold, BAM spacing,
  and every CTS grant ≤ RTS limit, ≤ own maximum, ≤ remaining.
-/
import J1939.Lemmas.Dll21
import J1939.Lemmas.Dll22Tick
namespace J1939.Props.C09
open J1939 J1939.Gen J1939.Dll21

/-! ### responder -/

/-- FIRST GRANT: an RTS on a free pair is answered by exactly one CTS for packet 1 that grants
    min(own maximum, RTS limit, total packets) — hence never more than any of the three -/
theorem c09_first_cts (cfg : Cfg) (s : St) (now : Nat) (mid : MessageId) (dest : Nat) (data : List Nat)
    (hl : 8 ≤ data.length) (hc : Tp21.cm_control data = Const.CM21.RTS)
    (hfree : s.rcv.contains (Tp21.buffer_hash mid.source_address dest) = false) :
    let g := min cfg.maxCmdt (min (Tp21.rts_max data) (Tp21.rts_packets data))
    (processCm cfg s now mid dest data).outs = [.tx (Tp21.cts dest mid.source_address g 1 (Tp21.cm_pgn data)), .wake] ∧
    g ≤ cfg.maxCmdt ∧ g ≤ Tp21.rts_max data ∧ g ≤ Tp21.rts_packets data ∧
    (processCm cfg s now mid dest data).st.rcv.get? (Tp21.buffer_hash mid.source_address dest) =
      some { pgn := Tp21.cm_pgn data, messageSize := Tp21.rts_size data, numPackages := Tp21.rts_packets data, nextPacket := g,
             maxCmdt := cfg.maxCmdt, maxRec := some g, data := [], deadline := now + Const.T21.T2,
             src := mid.source_address, dest := dest } := by
  have hl' : ¬ data.length < 8 := by omega
  unfold processCm
  simp only [hl', if_false, hc, beq_self_eq_true, if_true, hfree, Bool.false_eq_true]
  refine ⟨?_, Nat.min_le_left _ _, ?_, ?_, by simp [PyDict.get?_set_self]⟩
  · first | rfl | trivial
  · exact Nat.le_trans (Nat.min_le_right _ _) (Nat.min_le_left _ _)
  · exact Nat.le_trans (Nat.min_le_right _ _) (Nat.min_le_right _ _)

/-- a busy pair is refused with an abort (reason BUSY) and the running session is untouched -/
theorem c09_rts_busy (cfg : Cfg) (s : St) (now : Nat) (mid : MessageId) (dest : Nat) (data : List Nat)
    (hl : 8 ≤ data.length) (hc : Tp21.cm_control data = Const.CM21.RTS)
    (hbusy : s.rcv.contains (Tp21.buffer_hash mid.source_address dest) = true) :
    (processCm cfg s now mid dest data).st = s ∧
    (processCm cfg s now mid dest data).outs = [.tx (Tp21.abort dest mid.source_address Const.Abort21.BUSY (Tp21.cm_pgn data))] := by
  have hl' : ¬ data.length < 8 := by omega
  unfold processCm
  simp [hl', hc, hbusy]

/-- LATER GRANTS (the three outcomes of a TP.DT for a known session with negotiated window `mr`):
    complete → end-of-message ack (destination specific) + delivery, record removed;
    window border reached → ONE CTS granting min(negotiated window, remaining) for the next ungranted packet, and the
      granted count advances by at most the window and never beyond the total;
    otherwise → no frame.  The negotiated window, the total and the PGN of the record never change. -/
theorem c09_dt_complete (s : St) (now : Nat) (mid : MessageId) (dest : Nat) (data : List Nat) (r : Rcv)
    (hne : data ≠ []) (hr : s.rcv.get? (Tp21.buffer_hash mid.source_address dest) = some r)
    (hc : r.messageSize ≤ r.data.length + (data.length - 1)) :
    (processDt s now mid dest data).outs =
      (if dest != Const.Addr.GLOBAL then [Out.tx (Tp21.eom_ack dest mid.source_address r.messageSize r.numPackages r.pgn)] else []) ++
      [.notify mid.priority r.pgn mid.source_address dest ((r.data ++ data.drop 1).take r.messageSize), .wake] ∧
    (processDt s now mid dest data).st.rcv = s.rcv.erase (Tp21.buffer_hash mid.source_address dest) ∧
    (processDt s now mid dest data).err = none := by
  have hl : ¬ data.length < 1 := by cases data with | nil => exact absurd rfl hne | cons _ _ => simp
  unfold processDt
  simp only [hl, if_false, hr, List.length_append, List.length_drop, ge_iff_le, hc, if_true]
  exact ⟨trivial, trivial, trivial⟩

theorem c09_dt_cts (s : St) (now : Nat) (mid : MessageId) (dest : Nat) (data : List Nat) (r : Rcv) (mr : Nat)
    (hne : data ≠ []) (hr : s.rcv.get? (Tp21.buffer_hash mid.source_address dest) = some r) (hmr : r.maxRec = some mr)
    (hc : ¬ r.messageSize ≤ r.data.length + (data.length - 1))
    (hb : dest ≠ Const.Addr.GLOBAL ∧ r.nextPacket ≤ Py.idx data 0) :
    (processDt s now mid dest data).outs =
      [.tx (Tp21.cts dest mid.source_address (min mr (r.numPackages - r.nextPacket)) (r.nextPacket + 1) r.pgn), .wake] ∧
    (processDt s now mid dest data).st.rcv.get? (Tp21.buffer_hash mid.source_address dest) =
      some { r with data := r.data ++ data.drop 1, nextPacket := min (r.nextPacket + mr) r.numPackages, deadline := now + Const.T21.T2 } ∧
    min mr (r.numPackages - r.nextPacket) ≤ mr ∧ min mr (r.numPackages - r.nextPacket) ≤ r.numPackages - r.nextPacket := by
  have hl : ¬ data.length < 1 := by cases data with | nil => exact absurd rfl hne | cons _ _ => simp
  have hb1 : ¬ dest = 255 := by simpa using hb.1
  have hb' : (dest != Const.Addr.GLOBAL && decide (Py.idx data 0 ≥ r.nextPacket)) = true := by simp [hb1, hb.2]
  unfold processDt
  simp only [hl, if_false, hr, List.length_append, List.length_drop, ge_iff_le, hc, hb', if_true, hmr]
  exact ⟨trivial, by rw [PyDict.get?_set_self], Nat.min_le_left _ _, Nat.min_le_right _ _⟩

theorem c09_dt_plain (s : St) (now : Nat) (mid : MessageId) (dest : Nat) (data : List Nat) (r : Rcv)
    (hne : data ≠ []) (hr : s.rcv.get? (Tp21.buffer_hash mid.source_address dest) = some r)
    (hc : ¬ r.messageSize ≤ r.data.length + (data.length - 1))
    (hb : ¬ (dest ≠ Const.Addr.GLOBAL ∧ r.nextPacket ≤ Py.idx data 0)) :
    (processDt s now mid dest data).outs = [.wake] ∧
    (processDt s now mid dest data).st.rcv.get? (Tp21.buffer_hash mid.source_address dest) =
      some { r with data := r.data ++ data.drop 1, deadline := now + Const.T21.T1 } := by
  have hl : ¬ data.length < 1 := by cases data with | nil => exact absurd rfl hne | cons _ _ => simp
  have hb' : (dest != Const.Addr.GLOBAL && decide (Py.idx data 0 ≥ r.nextPacket)) = false := by
    cases h : (dest != Const.Addr.GLOBAL && decide (Py.idx data 0 ≥ r.nextPacket)) with
    | false => rfl
    | true => exfalso; apply hb; simpa using h
  unfold processDt
  simp only [hl, if_false, hr, List.length_append, List.length_drop, ge_iff_le, hc, hb', Bool.false_eq_true]
  exact ⟨trivial, by rw [PyDict.get?_set_self]⟩

/-! ### originator -/

/-- A GRANT OPENS A WINDOW of at most the granted number: a CTS for n ≥ 1 packets sets the wait-on packet to
    next + n' − 1 with n' ≤ n; for a conforming CTS (next packet = the stack's own counter, window within the message)
    exactly next + n − 1 -/
theorem c09_cts_window (cfg : Cfg) (s : St) (now : Nat) (mid : MessageId) (dest : Nat) (data : List Nat) (b : Snd)
    (hl : 8 ≤ data.length) (hc : Tp21.cm_control data = Const.CM21.CTS)
    (hb : s.snd.get? (Tp21.buffer_hash dest mid.source_address) = some b) (hn : Tp21.cts_packets data ≠ 0) :
    ∃ n' : Int, n' ≤ Tp21.cts_packets data ∧
      (processCm cfg s now mid dest data).st.snd.get? (Tp21.buffer_hash dest mid.source_address) =
        some { b with waitOn := some ((b.next : Int) + n' - 1), state := S_SENDING_IN_CTS, deadline := now } ∧
      (processCm cfg s now mid dest data).outs = [.wake] ∧
      (Tp21.cts_next data = b.next → b.next + Tp21.cts_packets data ≤ b.numPackages → n' = Tp21.cts_packets data) := by
  have hl' : ¬ data.length < 8 := by omega
  have hn' : (Tp21.cts_packets data == 0) = false := by simpa using hn
  unfold processCm
  simp only [hl', if_false, hc, hb, hn', cm21_cts_ne_rts, beq_self_eq_true, if_true, Bool.false_eq_true]
  simp only [beq_iff_eq, cm21_cts_ne_rts, if_false]
  refine ⟨_, ?_, by rw [PyDict.get?_set_self], ?_, ?_⟩
  · split <;> split <;> omega
  · first | rfl | trivial
  · intro h1 h2
    split <;> split <;> omega

/-- A HOLD (CTS with 0 packets) opens nothing: state, packet counter and wait-on packet are unchanged, only the
    deadline moves to now + Th; no frame is emitted -/
theorem c09_hold (cfg : Cfg) (s : St) (now : Nat) (mid : MessageId) (dest : Nat) (data : List Nat) (b : Snd)
    (hl : 8 ≤ data.length) (hc : Tp21.cm_control data = Const.CM21.CTS)
    (hb : s.snd.get? (Tp21.buffer_hash dest mid.source_address) = some b) (hn : Tp21.cts_packets data = 0) :
    (processCm cfg s now mid dest data).st.snd.get? (Tp21.buffer_hash dest mid.source_address) =
        some { b with deadline := now + Const.T21.Th } ∧
    (processCm cfg s now mid dest data).outs = [.wake] := by
  have hl' : ¬ data.length < 8 := by omega
  unfold processCm
  simp only [hl', if_false, hc, hb, hn, beq_iff_eq, cm21_cts_ne_rts, if_true]
  exact ⟨by rw [PyDict.get?_set_self], by first | rfl | trivial⟩

/-- NO DATA WHILE WAITING: in the background pass a record that waits for a CTS emits no TP.DT — nothing before its
    deadline, only the connection abort at the deadline (and then it is removed) -/
theorem c09_no_dt_while_waiting (cfg : Cfg) (now : Nat) (b : Snd) (h : b.state = S_WAITING_CTS) :
    (tickSndOne cfg now b).2.1 = [] ∨
    ((tickSndOne cfg now b).2.1 = [.tx (Tp21.abort b.src b.dest Const.Abort21.TIMEOUT b.pgn)] ∧ (tickSndOne cfg now b).1 = none) := by
  unfold tickSndOne
  crack [h]

/-- THE WINDOW IS OBEYED: after a CTS (state SENDING_IN_CTS, wait-on packet w ≥ next) a pass emits only TP.DT frames,
    for consecutive packets starting at `next`, never beyond packet w — at most w − next + 1 of them — and the record
    returns to WAITING_CTS as soon as packet w has gone out -/
theorem c09_window_obeyed (cfg : Cfg) (now : Nat) (b : Snd) (w : Int)
    (hs : b.state = S_SENDING_IN_CTS) (hw : b.waitOn = some w) (hle : (b.next : Int) ≤ w) (hnp : b.next ≤ b.numPackages)
    (hdue : b.deadline ≠ 0 ∧ b.deadline ≤ now) :
    ∃ b' k, (tickSndOne cfg now b).1 = some b' ∧ (tickSndOne cfg now b).2.2.1 = none ∧
      (tickSndOne cfg now b).2.1 = dtFrames b b.next k ∧ b'.next = b.next + k ∧ ((b.next + k : Nat) : Int) ≤ w + 1 ∧
      (b'.state = S_WAITING_CTS ∨ (b'.state = S_SENDING_IN_CTS ∧ ((b'.next : Int) ≤ w))) ∧ b'.waitOn = some w := by
  obtain ⟨hd0, hdn⟩ := hdue
  have e1 : (b.deadline != 0) = true := by simpa using hd0
  have e2 : ¬ b.deadline > now := by omega
  cases hres : sendWindow cfg now (b.numPackages - b.next + 1) b [] with
  | mk r1 rest =>
    cases rest with
    | mk ro re =>
      obtain ⟨h1, h2, h3, h4, h5, h6, h7, h8, h9, h10, h11, h12⟩ :=
        sendWindow_spec cfg now _ b [] w hw hle hnp (by omega) r1 ro re hres
      subst h1
      unfold tickSndOne
      simp only [e1, if_true, e2, if_false, hs, s_sending_def, s_waiting_def, beq_iff_eq, s21_sending_in_cts_ne_waiting_cts,
        hres, Option.isNone_none, Bool.true_and]
      have hk : r1.next = b.next + (r1.next - b.next) := by omega
      have h5' : ro = dtFrames b b.next (r1.next - b.next) := by simpa using h5
      by_cases hex : (r1.state == Const.S21.SENDING_IN_CTS) = true ∧ r1.numPackages ≤ r1.next
      · refine ⟨{ r1 with state := S_WAITING_CTS, deadline := now + Const.T21.T3 }, r1.next - b.next, ?_, ?_, h5', hk, ?_, Or.inl rfl, ?_⟩
        · simp only [decide_eq_true_eq, ge_iff_le, Bool.and_eq_true]; rw [if_pos hex]; rfl
        · first | rfl | trivial
        · rw [← hk]; exact h3
        · show r1.waitOn = some w; rw [h11]; exact hw
      · refine ⟨r1, r1.next - b.next, ?_, ?_, h5', hk, ?_, ?_, ?_⟩
        · simp only [decide_eq_true_eq, ge_iff_le, Bool.and_eq_true]; rw [if_neg hex]
        · first | rfl | trivial
        · rw [← hk]; exact h3
        · rcases h6 with h6 | ⟨h6, h6'⟩
          · exact Or.inl h6
          · rw [hs] at h6
            rcases h6' with h6' | h6'
            · exact Or.inr ⟨h6, h6'⟩
            · exfalso; apply hex; exact ⟨by simpa using h6, by omega⟩
        · rw [h11]; exact hw

/-- BAM PACING: a broadcast record emits nothing before its deadline; at or after it exactly ONE TP.DT, and the
    next one is not due before now + the configured interval (the wake-up it asks for is exactly that instant) -/
theorem c09_bam_spacing (cfg : Cfg) (now : Nat) (b : Snd) (h : b.state = S_SENDING_BM) (hd0 : b.deadline ≠ 0) :
    (now < b.deadline → (tickSndOne cfg now b).2.1 = [] ∧ (tickSndOne cfg now b).1 = some b ∧
        (tickSndOne cfg now b).2.2.2 = some b.deadline) ∧
    (b.deadline ≤ now → (tickSndOne cfg now b).2.1 = [.tx (Tp21.dt b.src b.dest (chunk b.data b.next))] ∧
        ((tickSndOne cfg now b).1 = none ∨
         ((tickSndOne cfg now b).1 = some { b with next := b.next + 1, deadline := now + cfg.bamInterval } ∧
          (tickSndOne cfg now b).2.2.2 = some (now + cfg.bamInterval)))) := by
  have e1 : (b.deadline != 0) = true := by simpa using hd0
  unfold tickSndOne
  refine ⟨?_, ?_⟩ <;> intro hh
  · have : b.deadline > now := hh
    simp [e1, this]
  · have e2 : ¬ b.deadline > now := by omega
    simp only [e1, if_true, e2, if_false, h, s_bm_def, s_waiting_def, s_sending_def, beq_iff_eq, s21_sending_bm_ne_waiting_cts,
      s21_sending_bm_ne_sending_in_cts]
    by_cases hlast : b.next + 1 < b.numPackages
    · simp only [hlast, if_true]; exact ⟨trivial, Or.inr ⟨trivial, trivial⟩⟩
    · simp only [hlast, if_false]; exact ⟨trivial, Or.inl trivial⟩

/-- the first BAM data packet is not due before the interval after the announcement -/
theorem c09_bam_first (cfg : Cfg) (s : St) (now dp pf ps prio sa : Nat) (data : List Nat) (hl : 8 < data.length)
    (hacc : (sendPgn cfg s now dp pf ps prio sa data).2 = true) (hg : C10dest pf ps = Const.Addr.GLOBAL) :
    ∃ b, (sendPgn cfg s now dp pf ps prio sa data).1.st.snd.get? (Tp21.buffer_hash sa Const.Addr.GLOBAL) = some b ∧
      b.state = S_SENDING_BM ∧ b.deadline = now + cfg.bamInterval ∧ b.next = 0 := by
  have hl' : ¬ data.length ≤ 8 := by omega
  unfold C10dest at hg
  unfold sendPgn at *
  simp only [hl', if_false] at *
  crack [hg, PyDict.get?_set_self]

end J1939.Props.C09

/-! ## J1939-22 (FD) -/
namespace J1939.Props.C09
open J1939 J1939.Gen J1939.Dll22

/-! ### J1939-22 responder -/

/-- J1939-22, FIRST GRANT: an RTS for a free (session, pair) is answered by exactly one CTS for segment 1 granting
    min(own maximum, RTS limit, total segments) — never more than any of the three -/
theorem c09_22_first_cts (cfg : Cfg) (s : St) (now : Nat) (mid : MessageId) (dest : Nat) (data : List Nat)
    (hl : 12 ≤ data.length) (hc : Tp22.cm_control data = Const.CM22.RTS)
    (hfree : s.rcv.contains (Tp22.buffer_hash (Tp22.cm_session data) mid.source_address dest) = false)
    (hsrc : mid.source_address ≠ Const.Addr.GLOBAL) :
    let g := min cfg.maxCmdt (min (Tp22.cm_byte7 data) (Tp22.cm_segment data))
    (processCm cfg s now mid dest data).outs =
      [.tx (Tp22.cts dest mid.source_address (Tp22.cm_session data) g 1 (Tp22.cm_pgn data)), .wake] ∧
    g ≤ cfg.maxCmdt ∧ g ≤ Tp22.cm_byte7 data ∧ g ≤ Tp22.cm_segment data := by
  have hl' : ¬ data.length < 12 := by omega
  have hsrc' : (mid.source_address == Const.Addr.GLOBAL) = false := by simpa using hsrc
  unfold processCm
  simp only [hl', if_false, hsrc', hc, beq_self_eq_true, if_true, hfree, Bool.false_eq_true]
  refine ⟨trivial, Nat.min_le_left _ _, ?_, ?_⟩
  · exact Nat.le_trans (Nat.min_le_right _ _) (Nat.min_le_left _ _)
  · exact Nat.le_trans (Nat.min_le_right _ _) (Nat.min_le_right _ _)

/-- J1939-22: a busy (session, pair) is refused with an abort (reason BUSY); the running session is untouched -/
theorem c09_22_rts_busy (cfg : Cfg) (s : St) (now : Nat) (mid : MessageId) (dest : Nat) (data : List Nat)
    (hl : 12 ≤ data.length) (hc : Tp22.cm_control data = Const.CM22.RTS)
    (hbusy : s.rcv.contains (Tp22.buffer_hash (Tp22.cm_session data) mid.source_address dest) = true)
    (hsrc : mid.source_address ≠ Const.Addr.GLOBAL) :
    (processCm cfg s now mid dest data).st = s ∧
    (processCm cfg s now mid dest data).outs =
      [.tx (Tp22.abort dest mid.source_address (Tp22.cm_session data) Const.Abort22.BUSY (Tp22.cm_pgn data))] := by
  have hl' : ¬ data.length < 12 := by omega
  have hsrc' : (mid.source_address == Const.Addr.GLOBAL) = false := by simpa using hsrc
  have hsrc2 : ¬ mid.source_address = 255 := hsrc
  unfold processCm
  simp [hl', hsrc2, hc, hbusy]

/-- J1939-22, LATER GRANTS: an in-order segment that does not complete the message and reaches the window border is
    answered by ONE CTS granting min(negotiated window, segments after the border) for segment border+1, and the border
    advances by at most the window, never beyond the total; below the border no frame is sent -/
theorem c09_22_dt_grant (s : St) (now : Nat) (mid : MessageId) (dest : Nat) (f : List Nat) (r : Rcv) (border mr : Nat)
    (hlen : 4 < f.length) (hseg : Tp22.dt_segment f ≠ 0) (hd : dest ≠ Const.Addr.GLOBAL)
    (hr : s.rcv.get? (Tp22.buffer_hash (Tp22.dt_session f) mid.source_address dest) = some r)
    (hnext : r.nextPacket = Tp22.dt_segment f) (hb : r.ctsBorder = some border) (hm : r.maxRec = some mr)
    (hinc : (r.data ++ f.drop 4).length < r.messageSize) :
    (Tp22.dt_segment f ≥ border →
      (processDt s now mid dest f).outs =
        [.tx (Tp22.cts dest mid.source_address (Tp22.dt_session f) (min mr (r.numSegments - border)) (border + 1) r.pgn), .wake] ∧
      min mr (r.numSegments - border) ≤ mr ∧ min mr (r.numSegments - border) ≤ r.numSegments - border) ∧
    (Tp22.dt_segment f < border → (processDt s now mid dest f).outs = []) := by
  have hl : ¬ f.length ≤ 4 := by omega
  have hseg' : (Tp22.dt_segment f == 0) = false := by simpa using hseg
  have hnx : (r.nextPacket != Tp22.dt_segment f) = false := by simp [hnext]
  have hdt : (dest != Const.Addr.GLOBAL) = true := by simpa using hd
  have hnf : ¬ (r.data ++ f.drop 4).length ≥ r.messageSize := by omega
  unfold processDt
  simp only [hl, if_false, hseg', Bool.false_eq_true, hr, hnx, hnf, hdt, if_true, hb, hm]
  constructor
  · intro hge
    simp only [hge, if_true]
    exact ⟨trivial, Nat.min_le_left _ _, Nat.min_le_right _ _⟩
  · intro hlt
    have : ¬ Tp22.dt_segment f ≥ border := by omega
    simp only [this, if_false]

/-- J1939-22 (repair of D29): an FD.TP.CM frame whose source is the global address — no station may send from it — is
    ignored altogether: same state, nothing sent; in particular it can never be taken for a peer's answer to one of the
    stack's own broadcast sessions -/
theorem c09_22_global_source_ignored (cfg : Cfg) (s : St) (now : Nat) (mid : MessageId) (dest : Nat) (data : List Nat)
    (hsrc : mid.source_address = Const.Addr.GLOBAL) :
    processCm cfg s now mid dest data = { st := s } := by
  unfold processCm
  simp [hsrc]

/-! ### J1939-22 originator -/

/-- J1939-22, A CTS OPENS A WINDOW OF AT MOST THE GRANTED NUMBER: the originator will send from the requested segment
    up to a wait-on segment that is at most `granted - 1` further, and never beyond its own maximum or the end of the
    message; a CTS granting 0 (hold) opens nothing and only re-arms the timer -/
theorem c09_22_cts_window (cfg : Cfg) (s : St) (now : Nat) (mid : MessageId) (dest : Nat) (data : List Nat) (b : Snd)
    (hl : 12 ≤ data.length) (hc : Tp22.cm_control data = Const.CM22.CTS)
    (hg : s.snd.get? (Tp22.buffer_hash (Tp22.cm_session data) dest mid.source_address) = some b)
    (hsrc : mid.source_address ≠ Const.Addr.GLOBAL) :
    (Tp22.cm_byte7 data = 0 →
      (processCm cfg s now mid dest data).st.snd.get? (Tp22.buffer_hash (Tp22.cm_session data) dest mid.source_address)
        = some { b with deadline := now + Const.T22.Th }) ∧
    (Tp22.cm_byte7 data ≠ 0 → ∃ b', (processCm cfg s now mid dest data).st.snd.get? (Tp22.buffer_hash (Tp22.cm_session data) dest mid.source_address) = some b' ∧
      b'.next = (Tp22.cm_segment data : Int) - 1 ∧ b'.state = S_SENDING_RTS_CTS ∧
      ∃ w, b'.waitOn = some w ∧ w - b'.next + 1 ≤ (Tp22.cm_byte7 data : Int) ∧ w - b'.next + 1 ≤ (cfg.maxCmdt : Int) ∧
        (w - b'.next + 1 ≤ (b.numSegments : Int) - b'.next ∨ (b.numSegments : Int) - b'.next < 0)) := by
  have hl' : ¬ data.length < 12 := by omega
  have c1 : (Const.CM22.CTS == Const.CM22.RTS) = false := by decide
  have hsrc' : (mid.source_address == Const.Addr.GLOBAL) = false := by simpa using hsrc
  unfold processCm
  simp only [hl', if_false, hsrc', hc, c1, Bool.false_eq_true, beq_self_eq_true, if_true, hg]
  constructor
  · intro h0
    simp [h0, PyDict.get?_set_self]
  · intro hne
    have : (Tp22.cm_byte7 data == 0) = false := by simpa using hne
    simp only [this, Bool.false_eq_true, if_false, PyDict.get?_set_self]
    refine ⟨_, rfl, rfl, rfl, _, rfl, ?_, ?_, ?_⟩
    · simp only; split <;> split <;> split <;> omega
    · simp only; split <;> split <;> split <;> omega
    · simp only; split <;> split <;> split <;> omega

/-- J1939-22, BROADCAST PACING: a broadcast record emits nothing before its deadline (and asks to be woken exactly then);
    at or after it exactly ONE FD.TP.DT frame — the next segment — and the following frame (next segment or the
    end-of-message status) is not due before now + the configured interval, which is exactly the wake-up it asks for -/
theorem c09_22_bam_spacing (cfg : Cfg) (now : Nat) (b : Snd) (msg : List Nat) (j : Nat) (hs : b.state = S_SENDING_BAM)
    (hd0 : b.deadline ≠ 0) (hdata : b.data = chunks60 msg) (hnext : b.next = (j : Int)) (hj : j < Tp22.num_segments msg.length) :
    (now < b.deadline → tickSndOne cfg now b = (some b, [], none, some b.deadline, .none)) ∧
    (b.deadline ≤ now →
      (tickSndOne cfg now b).2.1 =
        [.tx (Tp22.dt Const.LUT_FD_DLC b.src b.dest b.session (j + 1) ((msg.drop (60 * j)).take 60) 0)] ∧
      (tickSndOne cfg now b).2.2.2.1 = some (now + cfg.bamInterval) ∧
      ∃ b', (tickSndOne cfg now b).1 = some b' ∧ b'.deadline = now + cfg.bamInterval ∧ b'.next = (j : Int) + 1) := by
  refine ⟨?_, ?_⟩
  · intro hlt
    have e1 : (b.deadline != 0) = true := by simpa using hd0
    have e2 : b.deadline > now := hlt
    unfold tickSndOne
    simp only [e1, if_true, e2]
  · intro hdue
    rw [J1939.Props.C02.tickSndOne_bam cfg now b msg j hs hd0 hdue hdata hnext hj]
    refine ⟨rfl, rfl, _, rfl, ?_, ?_⟩ <;> split <;> rfl

end J1939.Props.C09
