/-
  C07 — No sequence of received frames can stop, stall or permanently clog the stack.   (J1939-21, then J1939-22)
  `WF` is an invariant of the session tables under EVERY frame (any identifier, any data, also when the handler
  raises), every send_pgn call and every background pass; from a `WF` state the pass never raises, never asks for a
  wake-up that is not in the future (no busy spin), and leaves no record whose deadline has passed.
-/
import J1939.Lemmas.Dll21Tick
import J1939.Lemmas.Dll22Tick
namespace J1939.Props.C07
open J1939 J1939.Gen J1939.Dll21

/-- THE PASS SURVIVES AND SLEEPS: from a well-formed state, at any time, with positive pacing intervals — no exception,
    well-formed afterwards, the requested wake-up is strictly in the future, every record that is left is due in the
    future (so a record whose timeout passed has been released or has made progress and was re-armed) -/
theorem c07_pass_ok (cfg : Cfg) (s : St) (now : Nat) (hnow : 0 < now) (hc : CfgPos cfg) (hwf : WF s) :
    (tick cfg s now).1.err = none ∧ WF (tick cfg s now).1.st ∧ now < (tick cfg s now).2 ∧
    (∀ k v, (tick cfg s now).1.st.rcv.get? k = some v → now < v.deadline) ∧
    (∀ k v, (tick cfg s now).1.st.snd.get? k = some v → now < v.deadline) := by
  have hidle : 0 < Const.Ecu.idle_wakeup := by decide
  obtain ⟨r1, r2, r3, r4, r5⟩ := tickRcv_inv now s.rcv.keys s (now + Const.Ecu.idle_wakeup) [] hwf.1
    (fun k hk => PyDict.get?_isSome_of_mem_keys _ _ hk) hwf (by omega)
    (fun k v hv hnot => absurd (mem_keys_of_get? _ _ _ hv) hnot)
  unfold tick
  simp only
  generalize hres1 : tickRcv now s.rcv.keys s (now + Const.Ecu.idle_wakeup) [] = res1 at *
  obtain ⟨s1, nw1, o1, e1⟩ := res1
  simp only at r1 r2 r3 r4 r5
  subst r1
  simp only
  obtain ⟨q1, q2, q3, q4, q5⟩ := tickSnd_inv cfg now hnow hc s1.snd.keys s1 nw1 o1 r2.2.1
    (fun k hk => PyDict.get?_isSome_of_mem_keys _ _ hk) r2 r3
    (fun k v hv hnot => absurd (mem_keys_of_get? _ _ _ hv) hnot)
  generalize hres2 : tickSnd cfg now s1.snd.keys s1 nw1 o1 = res2 at *
  obtain ⟨s2, nw2, o2, e2⟩ := res2
  simp only at q1 q2 q3 q4 q5 ⊢
  refine ⟨q1, q2, q3, ?_, q4⟩
  rw [q5]; exact r4

/-- `WF` holds initially -/
theorem c07_wf_init : WF {} := ⟨List.nodup_nil, List.nodup_nil, PyDict.all_nil _, PyDict.all_nil _⟩

theorem wf_set_snd (s : St) (k : Nat) (b : Snd) (h : WF s) (hb : SndOk b) : WF { s with snd := s.snd.set k b } :=
  ⟨h.1, PyDict.keys_set_nodup _ _ _ h.2.1, h.2.2.1, PyDict.all_set _ _ _ _ h.2.2.2 hb⟩

theorem wf_set_rcv (s : St) (k : Nat) (r : Rcv) (h : WF s) (hr : RcvOk r) : WF { s with rcv := s.rcv.set k r } :=
  ⟨PyDict.keys_set_nodup _ _ _ h.1, h.2.1, PyDict.all_set _ _ _ _ h.2.2.1 hr, h.2.2.2⟩

theorem wf_erase_rcv (s : St) (k : Nat) (h : WF s) : WF { s with rcv := s.rcv.erase k } :=
  ⟨PyDict.keys_erase_nodup _ _ h.1, h.2.1, PyDict.all_erase _ _ _ h.2.2.1, h.2.2.2⟩

/-- closes `SndOk` / `RcvOk` of a record written by a handler: the deadline is `now + c` or `now`; the state is a
    literal (then the wait-on entry is written too or the state is not SENDING_IN_CTS) or unchanged -/
macro "okrec" : tactic =>
  `(tactic| first
    | (refine ⟨by first | (simp only; omega) | omega, ?_⟩
       first
        | (intro h; simp at h; done)
        | (intro _; rfl)
        | (intro h; dsimp only at h ⊢; exact (‹PyDict.All SndOk _› _ _ (by assumption)).2 h))
    | (simp only [RcvOk]; omega))

/-- EVERY received frame — any identifier, any payload, accepted or not, whether or not the handler raises —
    keeps the tables well-formed -/
theorem c07_wf_notify (cfg : Cfg) (s : St) (now : Nat) (acc : Nat → Bool) (canId : Nat) (data : List Nat)
    (hnow : 0 < now) (hwf : WF s) : WF (notify cfg s now acc canId data).st := by
  have h4 : PyDict.All SndOk s.snd := hwf.2.2.2
  unfold notify
  dsimp only
  (repeat' split) <;> try exact hwf
  · -- TP.CM
    unfold processCm
    dsimp only
    (repeat' split) <;> (try dsimp only) <;> first
      | exact hwf
      | (apply wf_set_snd _ _ _ hwf; okrec)
      | (apply wf_set_rcv _ _ _ hwf; okrec)
      | (apply wf_set_rcv _ _ _ (wf_erase_rcv _ _ hwf); okrec)
  · -- TP.DT
    unfold processDt
    dsimp only
    (repeat' split) <;> (try dsimp only) <;> first
      | exact hwf
      | exact wf_erase_rcv _ _ hwf
      | (apply wf_set_rcv _ _ _ hwf; first | okrec | (show _ ≠ 0; dsimp only; exact hwf.2.2.1 _ _ (by assumption)))

/-- send_pgn keeps the tables well-formed -/
theorem c07_wf_sendPgn (cfg : Cfg) (s : St) (now dp pf ps prio sa : Nat) (data : List Nat) (hnow : 0 < now) (hwf : WF s) :
    WF (sendPgn cfg s now dp pf ps prio sa data).1.st := by
  have h4 : PyDict.All SndOk s.snd := hwf.2.2.2
  unfold sendPgn
  dsimp only
  (repeat' split) <;> (try dsimp only) <;> first
    | exact hwf
    | (apply wf_set_snd _ _ _ hwf; okrec)

/-- the side conditions on the reflected timeouts: every J1939-21 timeout a record can wait on is at most 1.25 s -/
theorem c07_timeouts_bounded :
    Const.T21.T1 ≤ 1250000 ∧ Const.T21.T2 ≤ 1250000 ∧ Const.T21.T3 ≤ 1250000 ∧ Const.T21.Th ≤ 1250000 := by decide

/-- non-vacuity: a well-formed state with a waiting and a sending record -/
example : WF (sendPgn {} (sendPgn {} {} 5 0 208 32 6 16 (List.replicate 20 1)).1.st 6 0 254 1 6 16 (List.replicate 9 2)).1.st :=
  c07_wf_sendPgn _ _ _ _ _ _ _ _ _ (by decide) (c07_wf_sendPgn _ _ _ _ _ _ _ _ _ (by decide) c07_wf_init)

end J1939.Props.C07

/-! ## J1939-22 (FD) -/
namespace J1939.Props.C07
open J1939 J1939.Gen

/-- J1939-22: `WF` (unique keys in the three tables; every receive record has a deadline; every send record has a
    deadline, a session number inside its pool, chunk data that covers its segment count, a stored wait-on segment and
    a next segment >= -1 while sending in a window, a next segment inside the message while broadcasting; every multi-PG
    buffer fits one frame; both pools have their size) holds initially -/
theorem c07_22_wf_init : Dll22.WF {} := Dll22.wf_init

/-- J1939-22: EVERY received frame — any identifier, any payload (FD.TP.CM with any control byte, session, size,
    segment number; FD.TP.DT; multi-PG; anything else), accepted or not, also when the handler raises — keeps `WF` -/
theorem c07_22_wf_notify (cfg : Dll22.Cfg) (s : Dll22.St) (now : Nat) (acc : Nat → Bool) (canId : Nat) (data : List Nat)
    (hnow : 0 < now) (hwf : Dll22.WF s) : Dll22.WF (Dll22.notify cfg s now acc canId data).st :=
  Dll22.notify_wf cfg s now acc canId data hnow hwf

/-- J1939-22: every `send_pgn` — short or long, refused or accepted, any time limit and frame format — keeps `WF` -/
theorem c07_22_wf_sendPgn (cfg : Dll22.Cfg) (s : Dll22.St) (now dp pf ps prio sa : Nat) (data : List Nat) (tl ff : Nat)
    (hc : Dll22.CfgPos cfg) (hwf : Dll22.WF s) : Dll22.WF (Dll22.sendPgn cfg s now dp pf ps prio sa data tl ff).1.st :=
  Dll22.sendPgn_wf cfg s now dp pf ps prio sa data tl ff hc hwf

/-- J1939-22, THE PASS SURVIVES AND SLEEPS: from a well-formed state, at any time — no exception (no KeyError, no
    IndexError from negative or too large segment numbers a hostile CTS stored, from the FD length table or from the
    session pools), `WF` afterwards, and the requested wake-up is strictly in the future (no busy spin) -/
theorem c07_22_pass_ok (cfg : Dll22.Cfg) (s : Dll22.St) (now : Nat) (hc : Dll22.CfgPos cfg) (hwf : Dll22.WF s) :
    (Dll22.tick cfg s now).1.err = none ∧ Dll22.WF (Dll22.tick cfg s now).1.st ∧ now < (Dll22.tick cfg s now).2 :=
  Dll22.tick_ok cfg s now hc hwf

/-- J1939-22, ANY HISTORY: sends, received frames (arbitrary) and background passes in any order at any positive
    times keep `WF`; so no pass of any history raises and none spins -/
inductive Ev22 where
  | send (now dp pf ps prio sa : Nat) (data : List Nat) (tl ff : Nat)
  | rx (now canId : Nat) (data : List Nat)
  | pass (now : Nat)

def Ev22.now : Ev22 → Nat
  | .send n .. => n | .rx n .. => n | .pass n => n

def step22 (cfg : Dll22.Cfg) (acc : Nat → Bool) (s : Dll22.St) : Ev22 → Dll22.St
  | .send now dp pf ps prio sa data tl ff => (Dll22.sendPgn cfg s now dp pf ps prio sa data tl ff).1.st
  | .rx now canId data => (Dll22.notify cfg s now acc canId data).st
  | .pass now => (Dll22.tick cfg s now).1.st

theorem c07_22_history_wf (cfg : Dll22.Cfg) (acc : Nat → Bool) (hc : Dll22.CfgPos cfg) (evs : List Ev22) (s : Dll22.St)
    (hwf : Dll22.WF s) (hpos : ∀ e ∈ evs, 0 < e.now) : Dll22.WF (evs.foldl (step22 cfg acc) s) := by
  induction evs generalizing s with
  | nil => exact hwf
  | cons e es ih =>
    simp only [List.foldl_cons]
    apply ih _ _ (fun e' he' => hpos e' (by simp [he']))
    have hp := hpos e (by simp)
    cases e with
    | send now dp pf ps prio sa data tl ff => exact c07_22_wf_sendPgn cfg s now dp pf ps prio sa data tl ff hc hwf
    | rx now canId data => exact c07_22_wf_notify cfg s now acc canId data hp hwf
    | pass now => exact (c07_22_pass_ok cfg s now hc hwf).2.1

theorem c07_22_never_raises_never_spins (cfg : Dll22.Cfg) (acc : Nat → Bool) (hc : Dll22.CfgPos cfg) (evs : List Ev22)
    (hpos : ∀ e ∈ evs, 0 < e.now) (now : Nat) :
    (Dll22.tick cfg (evs.foldl (step22 cfg acc) {}) now).1.err = none ∧ now < (Dll22.tick cfg (evs.foldl (step22 cfg acc) {}) now).2 :=
  let h := c07_22_pass_ok cfg _ now hc (c07_22_history_wf cfg acc hc evs {} c07_22_wf_init hpos)
  ⟨h.1, h.2.2⟩

end J1939.Props.C07
