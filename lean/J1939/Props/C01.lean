/-
  C01 — J1939-21 transport delivers every accepted message intact, exactly once.
  Session-level theorems about Model/Dll21.lean (all payload lengths and contents, all windows, all times): what the
  originator puts on the bus for an accepted message, and what the responder makes of it.  The N-party, all-schedules
  composition is exercised by the lock-step correspondence and the network oracle (see MANIFEST level note).
-/
import J1939.Lemmas.Trace21
import J1939.Lemmas.Bam21
import J1939.Lemmas.Rts21
namespace J1939.Props.C01
open J1939 J1939.Gen J1939.Dll21 J1939.Lemmas

/-- SHORT MESSAGES (0..8 bytes): one frame, identifier composed of priority, PGN and source, the payload unchanged;
    always accepted, no session state -/
theorem c01_short_frame (cfg : Cfg) (s : St) (now dp pf ps prio sa : Nat) (data : List Nat) (hl : data.length ≤ 8) :
    (sendPgn cfg s now dp pf ps prio sa data) =
      ({ st := s, outs := [.tx { id := MessageId.can_id (MessageId.ofFields prio (PGN.value (PGN.ofFields dp pf ps)) sa),
                                 ext := true, data := data }] }, true) := by
  unfold sendPgn; simp [hl]

/-- … and a received single frame of an ordinary PGN is handed up exactly once with priority, PGN, source and the
    same bytes: PDU2 → to everybody (destination 255), PDU1 → with its destination (if a local listener/CA accepts it) -/
theorem c01_single_frame_rx (cfg : Cfg) (s : St) (now : Nat) (acc : Nat → Bool) (canId : Nat) (data : List Nat) :
    let mid := MessageId.ofCanId canId
    let pgn := PGN.from_message_id mid
    (PGN.is_pdu2_format pgn = true →
        notify cfg s now acc canId data = { st := s, outs := [.notify mid.priority (PGN.value pgn) mid.source_address 255 data] }) ∧
    (PGN.is_pdu2_format pgn = false → (pgn.pdu_specific = 255 ∨ acc pgn.pdu_specific = true) →
      Tp21.notify_pgn_value pgn ≠ Const.PGN.ADDRESSCLAIM → Tp21.notify_pgn_value pgn ≠ Const.PGN.REQUEST →
      Tp21.notify_pgn_value pgn ≠ Const.PGN.TP_CM → Tp21.notify_pgn_value pgn ≠ Const.PGN.DATATRANSFER →
        notify cfg s now acc canId data =
          { st := s, outs := [.notify mid.priority (Tp21.notify_pgn_value pgn) mid.source_address pgn.pdu_specific data] }) := by
  refine ⟨?_, ?_⟩
  · intro h; unfold notify; simp [h]
  · intro h hacc h1 h2 h3 h4
    unfold notify
    have hacc' : ((PGN.from_message_id (MessageId.ofCanId canId)).pdu_specific != Const.Addr.GLOBAL &&
        !acc (PGN.from_message_id (MessageId.ofCanId canId)).pdu_specific) = false := by
      rcases hacc with hg | ha
      · simp [hg]
      · simp [ha]
    simp only [h, Bool.false_eq_true, if_false, hacc', beq_iff_eq, h1, h2, h3, h4]

/-- SEGMENTATION ROUND TRIP: for every message (any length, any content) the first `len` bytes of the concatenated
    7-byte payloads of packets 1 … ⌈len/7⌉ are the message; the protocol's 255-packet limit is exactly 1785 bytes -/
theorem c01_segments_roundtrip (data : List Nat) :
    (payloads data (Tp21.num_packets data.length)).take data.length = data ∧
    (Tp21.num_packets data.length ≤ 255 ↔ data.length ≤ 1785) :=
  ⟨payloads_take data _ (num_packets_spec data.length).1, num_packets_le_255 data.length⟩

/-- ORIGINATOR, connection mode: the data frames a window emits are the TP.DT frames of consecutive packets of the
    accepted payload, sequence numbers in order (restating the loop theorem of C09 for the frames' content) -/
theorem c01_originator_frames (cfg : Cfg) (now fuel : Nat) (b : Snd) (w : Int)
    (hw : b.waitOn = some w) (hle : (b.next : Int) ≤ w) (hnp : b.next ≤ b.numPackages) (hfuel : b.numPackages - b.next < fuel)
    (r1 : Snd) (ro : List Out) (re : Option PyErr) (hr : sendWindow cfg now fuel b [] = (r1, ro, re)) :
    ro = (List.range' b.next (r1.next - b.next)).map (fun p => Out.tx (Tp21.dt b.src b.dest (chunk b.data p))) ∧
    r1.data = b.data := by
  obtain ⟨_, _, _, _, h5, _, _, _, h9, _⟩ := sendWindow_spec cfg now fuel b [] w hw hle hnp hfuel r1 ro re hr
  exact ⟨by simpa [dtFrames] using h5, h9⟩

/-- ORIGINATOR, what is announced: an accepted message of more than 8 bytes to a specific address starts with one RTS
    carrying the exact size, ⌈len/7⌉ packets, the window limit min(own maximum, packets) and the PGN with PS = 0, and the
    record keeps the payload unchanged; to the global address / a PDU2 PGN it starts with one BAM -/
theorem c01_originator_announce (cfg : Cfg) (s : St) (now dp pf ps prio sa : Nat) (data : List Nat) (hl : 8 < data.length)
    (hacc : (sendPgn cfg s now dp pf ps prio sa data).2 = true) :
    let n := Tp21.num_packets data.length
    let pgn0 := PGN.value { PGN.ofFields dp pf ps with pdu_specific := 0 }
    ((ps == Const.Addr.GLOBAL || PGN.is_pdu2_format (PGN.ofFields 0 pf ps)) = false →
      (sendPgn cfg s now dp pf ps prio sa data).1.outs = [.tx (Tp21.rts sa ps prio pgn0 data.length n (min cfg.maxCmdt n)), .wake] ∧
      ∃ b, (sendPgn cfg s now dp pf ps prio sa data).1.st.snd.get? (Tp21.buffer_hash sa ps) = some b ∧ b.data = data ∧
        b.numPackages = n ∧ b.next = 0 ∧ b.state = S_WAITING_CTS ∧ b.src = sa ∧ b.dest = ps) ∧
    ((ps == Const.Addr.GLOBAL || PGN.is_pdu2_format (PGN.ofFields 0 pf ps)) = true →
      (sendPgn cfg s now dp pf ps prio sa data).1.outs =
        [.tx (Tp21.bam sa prio (if PGN.is_pdu1_format (PGN.ofFields dp pf ps) then pgn0 else PGN.value (PGN.ofFields dp pf ps)) data.length n), .wake] ∧
      ∃ b, (sendPgn cfg s now dp pf ps prio sa data).1.st.snd.get? (Tp21.buffer_hash sa 255) = some b ∧ b.data = data ∧
        b.numPackages = n ∧ b.next = 0 ∧ b.state = S_SENDING_BM ∧ b.src = sa ∧ b.dest = 255) := by
  have hl' : ¬ data.length ≤ 8 := by omega
  unfold sendPgn at hacc ⊢
  simp only [hl', if_false] at hacc ⊢
  refine ⟨?_, ?_⟩ <;> intro hb <;> simp only [hb, Bool.false_eq_true, if_false, if_true] at hacc ⊢
  · split at hacc
    · cases hacc
    · rename_i hc
      have hne : ¬ ps = 255 := by
        intro h; simp [h] at hb
      simp [hc, hne, PyDict.get?_set_self]
  · split at hacc
    · cases hacc
    · rename_i hc
      have hc' : s.snd.contains (Tp21.buffer_hash sa 255) = false := by simpa using hc
      simp [hc', PyDict.get?_set_self]

/-- RESPONDER: an RTS on a free pair announcing the size of `data`, followed by the TP.DT frames of `data` in order
    (at arbitrary times; the CTS answers are C09's), yields exactly ONE delivery — priority of the DT frames' identifier,
    the PGN announced in the RTS, the originator's address, the destination, and the byte-identical payload — at the last
    packet, and the pair is free again afterwards -/
theorem c01_responder_delivers (cfg : Cfg) (s : St) (now : Nat) (mid : MessageId) (dest : Nat) (rts : List Nat)
    (data : List Nat) (hlen : 0 < data.length)
    (hl : 8 ≤ rts.length) (hc : Tp21.cm_control rts = Const.CM21.RTS) (hsz : Tp21.rts_size rts = data.length)
    (hfree : s.rcv.contains (Tp21.buffer_hash mid.source_address dest) = false)
    (times : List Nat) (ht : times.length = Tp21.num_packets data.length) :
    let s1 := (processCm cfg s now mid dest rts).st
    let frames := (List.range' 0 (Tp21.num_packets data.length)).map (chunk data)
    deliveries (feedDt s1 mid dest (times.zip frames)).2 = [(mid.priority, Tp21.cm_pgn rts, mid.source_address, dest, data)] ∧
    (feedDt s1 mid dest (times.zip frames)).1.rcv.get? (Tp21.buffer_hash mid.source_address dest) = none := by
  have hl' : ¬ rts.length < 8 := by omega
  have hn : 0 < Tp21.num_packets data.length := by
    have := (num_packets_spec data.length).1; omega
  have hrec : (processCm cfg s now mid dest rts).st.rcv.get? (Tp21.buffer_hash mid.source_address dest) =
      some { pgn := Tp21.cm_pgn rts, messageSize := Tp21.rts_size rts, numPackages := Tp21.rts_packets rts,
             nextPacket := min cfg.maxCmdt (min (Tp21.rts_max rts) (Tp21.rts_packets rts)), maxCmdt := cfg.maxCmdt,
             maxRec := some (min cfg.maxCmdt (min (Tp21.rts_max rts) (Tp21.rts_packets rts))), data := [],
             deadline := now + Const.T21.T2, src := mid.source_address, dest := dest } := by
    unfold processCm
    simp [hl', hc, hfree, PyDict.get?_set_self]
  have := feed_delivers data hlen mid dest _ 0 (by omega) hn times ht _ _ hrec hsz rfl (fun _ => ⟨_, rfl⟩)
  exact this

/-- THE ACKNOWLEDGEMENT is the only other thing reported: an end-of-message ack for a running send session is handed to
    the originator's listeners once (with the transferred PGN), and marks the session finished -/
theorem c01_ack_reported (cfg : Cfg) (s : St) (now : Nat) (mid : MessageId) (dest : Nat) (data : List Nat) (b : Snd)
    (hl : 8 ≤ data.length) (hc : Tp21.cm_control data = Const.CM21.EOM_ACK)
    (hb : s.snd.get? (Tp21.buffer_hash dest mid.source_address) = some b) :
    (processCm cfg s now mid dest data).outs = [.notify mid.priority (Tp21.cm_pgn data) mid.source_address dest data, .wake] ∧
    (processCm cfg s now mid dest data).st.snd.get? (Tp21.buffer_hash dest mid.source_address) =
      some { b with state := S_FINISHED, deadline := now } := by
  have hl' : ¬ data.length < 8 := by omega
  unfold processCm
  simp [hl', hc, hb, PyDict.get?_set_self]

/-! ### Broadcast (BAM) from end to end -/

/-- ORIGINATOR, broadcast: `m` due background passes over a broadcast record with `m` packets left put exactly the
    TP.DT frames of those packets on the bus — one per pass, in order, byte-identical chunks of the accepted payload —
    and the last pass deletes the record (`Due`: the first pass at/after the record's deadline, each next one at/after
    the previous pass plus the configured interval) -/
theorem c01_bam_originator_frames (cfg : Cfg) (m : Nat) (times : List Nat) (b : Snd) (ht : times.length = m) (hm : 0 < m)
    (hs : b.state = S_SENDING_BM) (hn : b.next + m = b.numPackages) (hdue : Due cfg b.deadline times) :
    bamRun cfg times b = ((List.range' b.next m).map (fun k => Out.tx (Tp21.dt b.src b.dest (chunk b.data k))), none) :=
  bamRun_frames cfg m times b ht hm hs hn hdue

/-- BAM END TO END (J1939-21): an accepted broadcast of 9 … 1785 bytes, whose record is served by `n = ⌈len/7⌉` due
    background passes (whatever else the originator does in between), puts exactly n + 1 frames on the bus — the
    announcement and the n TP.DT frames in order — and the record is gone afterwards; ANY node that receives these
    frames (whatever its state before, whatever its acceptance filter, at whatever times, under its own configuration)
    delivers the message exactly once: PGN as announced, the originator's address, destination 255, the byte-identical
    payload — and keeps no receive record -/
theorem c01_bam_end_to_end (cfgO cfgR : Cfg) (sO sR : St) (acc : Nat → Bool) (t0 dp pf ps prio sa : Nat) (data : List Nat)
    (hl : 8 < data.length) (hmax : data.length ≤ 1785) (hsa : sa < 256) (hp : prio < 8)
    (hb : (ps == Const.Addr.GLOBAL || PGN.is_pdu2_format (PGN.ofFields 0 pf ps)) = true)
    (hacc : (sendPgn cfgO sO t0 dp pf ps prio sa data).2 = true)
    (passes : List Nat) (hpl : passes.length = Tp21.num_packets data.length)
    (hdue : Due cfgO (t0 + cfgO.bamInterval) passes)
    (rxTimes : List Nat) (hrl : rxTimes.length = Tp21.num_packets data.length + 1) :
    let r0 := (sendPgn cfgO sO t0 dp pf ps prio sa data).1
    let b := bamRec cfgO t0 dp pf ps prio sa data
    let run := bamRun cfgO passes b
    let wire := txFrames r0.outs ++ txFrames run.1
    r0.st.snd.get? (Tp21.buffer_hash sa 255) = some b ∧ run.2 = none ∧
    wire.length = Tp21.num_packets data.length + 1 ∧
    deliveries (rxAll cfgR acc sR (rxTimes.zip wire)).2 = [(7, bamPgn dp pf ps, sa, 255, data)] ∧
    (rxAll cfgR acc sR (rxTimes.zip wire)).1.rcv.get? (Tp21.buffer_hash sa 255) = none := by
  intro r0 b run wire
  have hn : 0 < Tp21.num_packets data.length := by
    have := (num_packets_spec data.length).1; omega
  have hn255 : Tp21.num_packets data.length < 256 := by
    have := (num_packets_le_255 data.length).2 hmax; omega
  have hr0 : r0 = _ := sendPgn_bam cfgO sO t0 dp pf ps prio sa data hl hb hacc
  have hrun : run = _ := bamRun_frames cfgO (Tp21.num_packets data.length) passes b hpl hn rfl (by simp [b, bamRec]) hdue
  have hwire : wire = Tp21.bam sa prio (bamPgn dp pf ps) data.length (Tp21.num_packets data.length) ::
      (List.range' 0 (Tp21.num_packets data.length)).map (fun k => Tp21.dt sa 255 (chunk data k)) := by
    simp only [wire, hr0, hrun]
    rw [txFrames_map]
    simp [txFrames, b, bamRec]
  obtain ⟨t, ts, rfl⟩ : ∃ t ts, rxTimes = t :: ts := by
    cases rxTimes with
    | nil => simp at hrl
    | cons t ts => exact ⟨t, ts, rfl⟩
  simp only [List.length_cons, Nat.add_right_cancel_iff] at hrl
  refine ⟨by rw [hr0]; exact PyDict.get?_set_self _ _ _, by rw [hrun], by rw [hwire]; simp, ?_⟩
  rw [hwire]
  obtain ⟨e1, e2, rc, e3, e4, e5, e6⟩ := rx_bam cfgR sR t acc sa prio (bamPgn dp pf ps) data.length (Tp21.num_packets data.length)
    hsa hp (by omega) hn255 (bamPgn_lt dp pf ps)
  obtain ⟨m1, m2, _⟩ := tp_id_parse 7 235 255 sa (by omega) (by omega) (by omega) hsa
  have hz : ts.zip ((List.range' 0 (Tp21.num_packets data.length)).map (fun k => Tp21.dt sa 255 (chunk data k))) =
      (ts.zip ((List.range' 0 (Tp21.num_packets data.length)).map (chunk data))).map (fun p => (p.1, Tp21.dt sa 255 p.2)) := by
    exact zip_map_comp ts _ (chunk data) (Tp21.dt sa 255)
  simp only [List.zip_cons_cons, rxAll, hz]
  rw [rxAll_dt cfgR acc sa hsa]
  have := feed_delivers data (by omega) _ 255 (Tp21.num_packets data.length) 0 (by omega) hn ts hrl _ rc
    (by rw [m1]; exact e3) e4 (by rw [e5]; rfl) (fun h => absurd rfl h)
  simp only at this
  have h2 := this.2
  rw [m1] at h2
  rw [deliveries_append, e1, List.nil_append, this.1, m1, m2, e6]
  exact ⟨rfl, h2⟩

/-- the hypotheses of `c01_bam_end_to_end` are satisfiable: a 20-byte PDU2 message on an empty stack, three passes -/
example : (sendPgn {} {} 1000 0 254 202 6 128 (List.range 20)).2 = true ∧
    (202 == Const.Addr.GLOBAL || PGN.is_pdu2_format (PGN.ofFields 0 254 202)) = true ∧
    Due {} (1000 + ({} : Cfg).bamInterval) [51000, 101000, 160000] ∧ Tp21.num_packets (List.range 20).length = 3 := by
  refine ⟨by decide, by decide, ?_, by decide⟩
  simp [Due, Const.Default.bam_interval_21]

/-! ### Connection mode (RTS/CTS) from end to end -/

/-- DISPATCH of the stack's own TP frames: the identifier the builders compose (priority, PF 236/235, destination, source)
    is parsed back to exactly those fields, and `notify` hands the frame to `_process_tp_cm` / `_process_tp_dt` with that
    destination whenever the destination is global or locally accepted — the tie between the frames on the wire and the
    handler-level statements below -/
theorem c01_tp_dispatch (cfg : Cfg) (s : St) (now : Nat) (acc : Nat → Bool) (prio da sa : Nat) (data : List Nat)
    (hp : prio < 8) (hda : da < 256) (hsa : sa < 256) (hacc : da = 255 ∨ acc da = true) :
    let idCm := MessageId.can_id (MessageId.ofFields prio (PGN.value (PGN.ofFields 0 236 da)) sa)
    let idDt := MessageId.can_id (MessageId.ofFields prio (PGN.value (PGN.ofFields 0 235 da)) sa)
    (MessageId.ofCanId idCm).source_address = sa ∧ (MessageId.ofCanId idCm).priority = prio ∧
    (MessageId.ofCanId idDt).source_address = sa ∧ (MessageId.ofCanId idDt).priority = prio ∧
    notify cfg s now acc idCm data = processCm cfg s now (MessageId.ofCanId idCm) da data ∧
    notify cfg s now acc idDt data = processDt s now (MessageId.ofCanId idDt) da data :=
  tp_dispatch cfg s now acc prio da sa data hp hda hsa hacc

/-- ONE ROUND of a running session (originator: packets 0 … j−1 out, may send up to packet `wn`; responder: holds
    exactly those j packets, its window ends at `wn`): the round either keeps this invariant with MORE packets
    transferred and nothing delivered, or completes the transfer — one delivery of the byte-identical message, the
    responder's record gone, one acknowledgement reported, the originator's record finished and due -/
theorem c01_rtscts_round (cfgO : Cfg) (midO midR : MessageId) (data : List Nat) (pgn mr : Nat) (hlen : 0 < data.length)
    (hmax : data.length ≤ 1785) (hp : pgn < 16777216) (hd : midR.source_address ≠ Const.Addr.GLOBAL) (hmr : 0 < mr)
    (x : Nat × Nat × Nat) (sO sR : St) (j wn : Nat) (b : Snd) (r : Rcv)
    (hj : j ≤ wn) (hwn : wn < Tp21.num_packets data.length)
    (hb : sO.snd.get? (Tp21.buffer_hash midO.source_address midR.source_address) = some b)
    (hr : sR.rcv.get? (Tp21.buffer_hash midO.source_address midR.source_address) = some r)
    (ob : OInv data j wn b) (rb : RInv data pgn j (wn + 1) mr r)
    (hdue : b.deadline ≤ x.1) (ht : 0 < x.1) (htO : 0 < x.2.2) :
    ∃ sO' sR' oR oO, round cfgO midO midR x sO sR = some (sO', sR', oR, oO) ∧
      ((∃ j' wn' b' r', j < j' ∧ j' ≤ wn' ∧ wn' < Tp21.num_packets data.length ∧
          sO'.snd.get? (Tp21.buffer_hash midO.source_address midR.source_address) = some b' ∧
          sR'.rcv.get? (Tp21.buffer_hash midO.source_address midR.source_address) = some r' ∧
          OInv data j' wn' b' ∧ RInv data pgn j' (wn' + 1) mr r' ∧
          b'.deadline ≤ max x.2.2 (x.1 + cfgO.cmdtInterval.getD 0) ∧ deliveries oR = [] ∧ deliveries oO = []) ∨
       (deliveries oR = [(midO.priority, pgn, midO.source_address, midR.source_address, data)] ∧
        sR'.rcv.get? (Tp21.buffer_hash midO.source_address midR.source_address) = none ∧
        deliveries oO = [(midR.priority, pgn, midR.source_address, midO.source_address,
          (Tp21.eom_ack midR.source_address midO.source_address data.length (Tp21.num_packets data.length) pgn).data)] ∧
        ∃ bf, sO'.snd.get? (Tp21.buffer_hash midO.source_address midR.source_address) = some bf ∧
          bf.state = S_FINISHED ∧ bf.deadline = x.2.2)) :=
  round_step cfgO midO midR data pgn mr hlen hmax hp hd hmr x sO sR j wn b r hj hwn hb hr ob rb hdue ht htO

/-- RTS/CTS FROM END TO END (J1939-21, handlers atomic, no timeouts): an accepted destination-specific message of
    9 … 1785 bytes; the responder (pair free, any other state, its own window limit ≥ 1) handles the RTS, the originator
    handles the CTS, and then ROUNDS follow — originator pass, the responder handles that pass's TP.DT frames in order,
    the originator handles the answers — under ANY schedule that finds the record due each time (`Sched`), whatever the
    two window limits and the originator's minimum packet interval (whole windows per pass or one packet per pass).
    After at most ⌈len/7⌉ + 1 rounds: the responder has delivered the message EXACTLY ONCE — announced PGN, originator's
    address, its own address, byte-identical payload —, the originator has reported exactly one EndOfMsgACK, and
    neither side keeps a session record.  (`midC`/`midO`/`midR`: the parsed identifiers of the originator's TP.CM, its
    TP.DT and the responder's frames; `c01_tp_dispatch` ties them to the frames' identifiers and to `notify`.) -/
theorem c01_rtscts_end_to_end (cfgO cfgR : Cfg) (sO sR : St) (midC midO midR : MessageId) (t0 tR tO dp pf prio : Nat) (data : List Nat)
    (hl : 8 < data.length) (hmax : data.length ≤ 1785) (hcO : 0 < cfgO.maxCmdt) (hcR : 0 < cfgR.maxCmdt)
    (hsrc : midC.source_address = midO.source_address)
    (hb : (midR.source_address == Const.Addr.GLOBAL || PGN.is_pdu2_format (PGN.ofFields 0 pf midR.source_address)) = false)
    (hacc : (sendPgn cfgO sO t0 dp pf midR.source_address prio midO.source_address data).2 = true)
    (hfree : sR.rcv.contains (Tp21.buffer_hash midO.source_address midR.source_address) = false)
    (htO : 0 < tO) (xs : List (Nat × Nat × Nat)) (hsched : Sched cfgO tO xs)
    (hxs : Tp21.num_packets data.length + 1 ≤ xs.length) :
    let r0 := (sendPgn cfgO sO t0 dp pf midR.source_address prio midO.source_address data).1
    let a1 := answer cfgR tR midC midR.source_address sR (txFrames r0.outs)
    let a2 := answer cfgO tO midR midO.source_address r0.st (txFrames a1.2)
    let q := run cfgO midO midR xs a2.1 a1.1
    deliveries (a1.2 ++ q.2.2.1) =
      [(midO.priority, rtsPgn dp pf midR.source_address, midO.source_address, midR.source_address, data)] ∧
    q.2.1.rcv.get? (Tp21.buffer_hash midO.source_address midR.source_address) = none ∧
    deliveries (a2.2 ++ q.2.2.2) =
      [(midR.priority, rtsPgn dp pf midR.source_address, midR.source_address, midO.source_address,
        (Tp21.eom_ack midR.source_address midO.source_address data.length (Tp21.num_packets data.length)
          (rtsPgn dp pf midR.source_address)).data)] ∧
    q.1.snd.get? (Tp21.buffer_hash midO.source_address midR.source_address) = none := by
  intro r0 a1 a2 q
  have hd : midR.source_address ≠ Const.Addr.GLOBAL := by
    intro h; simp [h] at hb
  have hn : 0 < Tp21.num_packets data.length := by
    have := (num_packets_spec data.length).1; omega
  have hn255 : Tp21.num_packets data.length < 256 := by
    have := (num_packets_le_255 data.length).2 hmax; omega
  have hr0 : r0 = _ := sendPgn_rts cfgO sO t0 dp pf midR.source_address prio midO.source_address data hl hb hacc
  -- the responder and the RTS
  have hrts := rts_accepted cfgR sR tR midC midR.source_address prio (rtsPgn dp pf midR.source_address) data.length
    (Tp21.num_packets data.length) (min cfgO.maxCmdt (Tp21.num_packets data.length)) (by omega) hn255 (by omega)
    (rtsPgn_lt dp pf midR.source_address) (by rw [hsrc]; exact hfree)
  rw [hsrc] at hrts
  generalize hg : min cfgR.maxCmdt (min (min cfgO.maxCmdt (Tp21.num_packets data.length)) (Tp21.num_packets data.length)) = g at hrts
  have hg1 : 0 < g := by omega
  have hgn : g ≤ Tp21.num_packets data.length := by omega
  let rR : Rcv := { pgn := rtsPgn dp pf midR.source_address, messageSize := data.length,
                    numPackages := Tp21.num_packets data.length, nextPacket := g, maxCmdt := cfgR.maxCmdt, maxRec := some g,
                    data := [], deadline := tR + Const.T21.T2, src := midO.source_address, dest := midR.source_address }
  have ha1 : a1 = ({ sR with rcv := sR.rcv.set (Tp21.buffer_hash midO.source_address midR.source_address) rR },
      [Out.tx (Tp21.cts midR.source_address midO.source_address g 1 (rtsPgn dp pf midR.source_address)), Out.wake]) := by
    simp only [a1, hr0, txFrames, List.filterMap_cons, List.filterMap_nil, answer]
    rw [hrts]
    rfl
  -- the originator and the first CTS
  have hcts := cts_accepted cfgO r0.st tO midR midO.source_address (rtsRec t0 dp pf midR.source_address prio midO.source_address data)
    g (rtsPgn dp pf midR.source_address) (by rw [hr0]; exact PyDict.get?_set_self _ _ _) hg1 (by simp only [rtsRec]; omega)
  let bN : Snd := { rtsRec t0 dp pf midR.source_address prio midO.source_address data with
                    waitOn := some (((0 + g - 1 : Nat) : Int)), state := S_SENDING_IN_CTS, deadline := tO }
  have ha2 : a2 = ({ r0.st with snd := r0.st.snd.set (Tp21.buffer_hash midO.source_address midR.source_address) bN }, [Out.wake]) := by
    simp only [a2, ha1, txFrames, List.filterMap_cons, List.filterMap_nil, answer]
    have : (rtsRec t0 dp pf midR.source_address prio midO.source_address data).next + 1 = 1 := rfl
    rw [this] at hcts
    rw [hcts]
    rfl
  have hrun := run_delivers cfgO midO midR data (rtsPgn dp pf midR.source_address) g (by omega) hmax (rtsPgn_lt _ _ _) hd hg1
    (Tp21.num_packets data.length) xs a2.1 a1.1 0 (g - 1) tO bN rR (by omega) (by omega) (by omega)
    (by rw [ha2]; exact PyDict.get?_set_self _ _ _) (by rw [ha1]; exact PyDict.get?_set_self _ _ _)
    ⟨rfl, rfl, rfl, rfl, by show some (((0 + g - 1 : Nat) : Int)) = some (((g - 1 : Nat) : Int)); congr 2; omega, by show tO ≠ 0; omega⟩
    ⟨rfl, rfl, rfl, by show g = g - 1 + 1; omega, rfl, rfl⟩ (by show tO ≤ tO; omega) hsched hxs
  obtain ⟨i1, i2, i3, i4⟩ := hrun
  refine ⟨?_, i2, ?_, i4⟩
  · rw [deliveries_append, i1, ha1]; simp [deliveries]
  · rw [deliveries_append, i3, ha2]; simp [deliveries]

/-- the hypotheses of `c01_rtscts_end_to_end` are satisfiable: a 20-byte PDU1 message 0x80 → 0x90 on empty stacks,
    four rounds 10 ms apart -/
example : (sendPgn {} {} 1000 0 239 0x90 6 0x80 (List.range 20)).2 = true ∧
    (0x90 == Const.Addr.GLOBAL || PGN.is_pdu2_format (PGN.ofFields 0 239 0x90)) = false ∧
    Sched {} 3000 [(10000, 10001, 10002), (20000, 20001, 20002), (30000, 30001, 30002), (40000, 40001, 40002)] ∧
    Tp21.num_packets (List.range 20).length + 1 ≤ 4 := by
  refine ⟨by decide, by decide, ?_, by decide⟩
  simp [Sched]

section SessionKeys
open J1939.Bits

/-- the J1939-21 session key in arithmetic form -/
theorem hash21_arith (s d : Nat) : Tp21.buffer_hash s d = s % 256 * 256 + d % 256 := by
  simp only [Tp21.buffer_hash, and_255, shl_8]
  have := mul_or (s % 256) (d % 256) 8 (by simp only [Nat.reducePow]; omega); simpa using this

/-- SESSIONS OF DIFFERENT PEER PAIRS NEVER SHARE A BUFFER: the key under which `send_pgn`, `notify` and the job thread store
    and look up a transport session (regenerated from the source's `_buffer_hash`) is injective on all 256 × 256
    (source, destination) pairs, so no transfer can be continued, overwritten or freed by frames of another pair -/
theorem c01_session_key_injective (s d s' d' : Nat) (hs : s < 256) (hd : d < 256) (hs' : s' < 256) (hd' : d' < 256)
    (h : Tp21.buffer_hash s d = Tp21.buffer_hash s' d') : s = s' ∧ d = d' := by
  rw [hash21_arith, hash21_arith] at h
  omega

end SessionKeys

end J1939.Props.C01
