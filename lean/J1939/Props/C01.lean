/-
  C01 — J1939-21 transport delivers every accepted message intact, exactly once.
  Session-level theorems about Model/Dll21.lean (all payload lengths and contents, all windows, all times): what the
  originator puts on the bus for an accepted message, and what the responder makes of it.  The N-party, all-schedules
  composition is exercised by the lock-step correspondence and the network oracle (see MANIFEST level note).
-/
import J1939.Lemmas.Trace21
import J1939.Lemmas.Bam21
namespace J1939.Props.C01
open J1939 J1939.Gen J1939.Dll21 J1939.Lemmas

/-- SHORT MESSAGES (0..8 bytes): one frame, identifier composed of priority, PGN and source, the payload unchanged;
    always accepted, no session state -/
theorem c01_short_frame (cfg : Cfg) (s : St) (now dp pf ps prio sa : Nat) (data : List Nat) (hl : data.length ≤ 8) :
    (sendPgn cfg s now dp pf ps prio sa data) =
      ({ st := s, outs := [.tx { id := MessageId.can_id (MessageId.ofFields prio (PGN.value (PGN.ofFields dp pf ps)) sa),
                                 ext := true, data := data }] }, true) := by
  unfold sendPgn; simp [hl]

/-- … and a received single frame of an ordinary PGN is handed up exactly once with priority, PGN, source and the
    same bytes: PDU2 → to everybody (destination 255), PDU1 → with its destination (if a local listener/CA accepts it) -/
theorem c01_single_frame_rx (cfg : Cfg) (s : St) (now : Nat) (acc : Nat → Bool) (canId : Nat) (data : List Nat) :
    let mid := MessageId.ofCanId canId
    let pgn := PGN.from_message_id mid
    (PGN.is_pdu2_format pgn = true →
        notify cfg s now acc canId data = { st := s, outs := [.notify mid.priority (PGN.value pgn) mid.source_address 255 data] }) ∧
    (PGN.is_pdu2_format pgn = false → (pgn.pdu_specific = 255 ∨ acc pgn.pdu_specific = true) →
      Tp21.notify_pgn_value pgn ≠ Const.PGN.ADDRESSCLAIM → Tp21.notify_pgn_value pgn ≠ Const.PGN.REQUEST →
      Tp21.notify_pgn_value pgn ≠ Const.PGN.TP_CM → Tp21.notify_pgn_value pgn ≠ Const.PGN.DATATRANSFER →
        notify cfg s now acc canId data =
          { st := s, outs := [.notify mid.priority (Tp21.notify_pgn_value pgn) mid.source_address pgn.pdu_specific data] }) := by
  refine ⟨?_, ?_⟩
  · intro h; unfold notify; simp [h]
  · intro h hacc h1 h2 h3 h4
    unfold notify
    have hacc' : ((PGN.from_message_id (MessageId.ofCanId canId)).pdu_specific != Const.Addr.GLOBAL &&
        !acc (PGN.from_message_id (MessageId.ofCanId canId)).pdu_specific) = false := by
      rcases hacc with hg | ha
      · simp [hg]
      · simp [ha]
    simp only [h, Bool.false_eq_true, if_false, hacc', beq_iff_eq, h1, h2, h3, h4]

/-- SEGMENTATION ROUND TRIP: for every message (any length, any content) the first `len` bytes of the concatenated
    7-byte payloads of packets 1 … ⌈len/7⌉ are the message; the protocol's 255-packet limit is exactly 1785 bytes -/
theorem c01_segments_roundtrip (data : List Nat) :
    (payloads data (Tp21.num_packets data.length)).take data.length = data ∧
    (Tp21.num_packets data.length ≤ 255 ↔ data.length ≤ 1785) :=
  ⟨payloads_take data _ (num_packets_spec data.length).1, num_packets_le_255 data.length⟩

/-- ORIGINATOR, connection mode: the data frames a window emits are the TP.DT frames of consecutive packets of the
    accepted payload, sequence numbers in order (restating the loop theorem of C09 for the frames' content) -/
theorem c01_originator_frames (cfg : Cfg) (now fuel : Nat) (b : Snd) (w : Int)
    (hw : b.waitOn = some w) (hle : (b.next : Int) ≤ w) (hnp : b.next ≤ b.numPackages) (hfuel : b.numPackages - b.next < fuel)
    (r1 : Snd) (ro : List Out) (re : Option PyErr) (hr : sendWindow cfg now fuel b [] = (r1, ro, re)) :
    ro = (List.range' b.next (r1.next - b.next)).map (fun p => Out.tx (Tp21.dt b.src b.dest (chunk b.data p))) ∧
    r1.data = b.data := by
  obtain ⟨_, _, _, _, h5, _, _, _, h9, _⟩ := sendWindow_spec cfg now fuel b [] w hw hle hnp hfuel r1 ro re hr
  exact ⟨by simpa [dtFrames] using h5, h9⟩

/-- ORIGINATOR, what is announced: an accepted message of more than 8 bytes to a specific address starts with one RTS
    carrying the exact size, ⌈len/7⌉ packets, the window limit min(own maximum, packets) and the PGN with PS = 0, and the
    record keeps the payload unchanged; to the global address / a PDU2 PGN it starts with one BAM -/
theorem c01_originator_announce (cfg : Cfg) (s : St) (now dp pf ps prio sa : Nat) (data : List Nat) (hl : 8 < data.length)
    (hacc : (sendPgn cfg s now dp pf ps prio sa data).2 = true) :
    let n := Tp21.num_packets data.length
    let pgn0 := PGN.value { PGN.ofFields dp pf ps with pdu_specific := 0 }
    ((ps == Const.Addr.GLOBAL || PGN.is_pdu2_format (PGN.ofFields 0 pf ps)) = false →
      (sendPgn cfg s now dp pf ps prio sa data).1.outs = [.tx (Tp21.rts sa ps prio pgn0 data.length n (min cfg.maxCmdt n)), .wake] ∧
      ∃ b, (sendPgn cfg s now dp pf ps prio sa data).1.st.snd.get? (Tp21.buffer_hash sa ps) = some b ∧ b.data = data ∧
        b.numPackages = n ∧ b.next = 0 ∧ b.state = S_WAITING_CTS ∧ b.src = sa ∧ b.dest = ps) ∧
    ((ps == Const.Addr.GLOBAL || PGN.is_pdu2_format (PGN.ofFields 0 pf ps)) = true →
      (sendPgn cfg s now dp pf ps prio sa data).1.outs =
        [.tx (Tp21.bam sa prio (if PGN.is_pdu1_format (PGN.ofFields dp pf ps) then pgn0 else PGN.value (PGN.ofFields dp pf ps)) data.length n), .wake] ∧
      ∃ b, (sendPgn cfg s now dp pf ps prio sa data).1.st.snd.get? (Tp21.buffer_hash sa 255) = some b ∧ b.data = data ∧
        b.numPackages = n ∧ b.next = 0 ∧ b.state = S_SENDING_BM ∧ b.src = sa ∧ b.dest = 255) := by
  have hl' : ¬ data.length ≤ 8 := by omega
  unfold sendPgn at hacc ⊢
  simp only [hl', if_false] at hacc ⊢
  refine ⟨?_, ?_⟩ <;> intro hb <;> simp only [hb, Bool.false_eq_true, if_false, if_true] at hacc ⊢
  · split at hacc
    · cases hacc
    · rename_i hc
      have hne : ¬ ps = 255 := by
        intro h; simp [h] at hb
      simp [hc, hne, PyDict.get?_set_self]
  · split at hacc
    · cases hacc
    · rename_i hc
      have hc' : s.snd.contains (Tp21.buffer_hash sa 255) = false := by simpa using hc
      simp [hc', PyDict.get?_set_self]

/-- RESPONDER: an RTS on a free pair announcing the size of `data`, followed by the TP.DT frames of `data` in order
    (at arbitrary times; the CTS answers are C09's), yields exactly ONE delivery — priority of the DT frames' identifier,
    the PGN announced in the RTS, the originator's address, the destination, and the byte-identical payload — at the last
    packet, and the pair is free again afterwards -/
theorem c01_responder_delivers (cfg : Cfg) (s : St) (now : Nat) (mid : MessageId) (dest : Nat) (rts : List Nat)
    (data : List Nat) (hlen : 0 < data.length)
    (hl : 8 ≤ rts.length) (hc : Tp21.cm_control rts = Const.CM21.RTS) (hsz : Tp21.rts_size rts = data.length)
    (hfree : s.rcv.contains (Tp21.buffer_hash mid.source_address dest) = false)
    (times : List Nat) (ht : times.length = Tp21.num_packets data.length) :
    let s1 := (processCm cfg s now mid dest rts).st
    let frames := (List.range' 0 (Tp21.num_packets data.length)).map (chunk data)
    deliveries (feedDt s1 mid dest (times.zip frames)).2 = [(mid.priority, Tp21.cm_pgn rts, mid.source_address, dest, data)] ∧
    (feedDt s1 mid dest (times.zip frames)).1.rcv.get? (Tp21.buffer_hash mid.source_address dest) = none := by
  have hl' : ¬ rts.length < 8 := by omega
  have hn : 0 < Tp21.num_packets data.length := by
    have := (num_packets_spec data.length).1; omega
  have hrec : (processCm cfg s now mid dest rts).st.rcv.get? (Tp21.buffer_hash mid.source_address dest) =
      some { pgn := Tp21.cm_pgn rts, messageSize := Tp21.rts_size rts, numPackages := Tp21.rts_packets rts,
             nextPacket := min cfg.maxCmdt (min (Tp21.rts_max rts) (Tp21.rts_packets rts)), maxCmdt := cfg.maxCmdt,
             maxRec := some (min cfg.maxCmdt (min (Tp21.rts_max rts) (Tp21.rts_packets rts))), data := [],
             deadline := now + Const.T21.T2, src := mid.source_address, dest := dest } := by
    unfold processCm
    simp [hl', hc, hfree, PyDict.get?_set_self]
  have := feed_delivers data hlen mid dest _ 0 (by omega) hn times ht _ _ hrec hsz rfl (fun _ => ⟨_, rfl⟩)
  exact this

/-- THE ACKNOWLEDGEMENT is the only other thing reported: an end-of-message ack for a running send session is handed to
    the originator's listeners once (with the transferred PGN), and marks the session finished -/
theorem c01_ack_reported (cfg : Cfg) (s : St) (now : Nat) (mid : MessageId) (dest : Nat) (data : List Nat) (b : Snd)
    (hl : 8 ≤ data.length) (hc : Tp21.cm_control data = Const.CM21.EOM_ACK)
    (hb : s.snd.get? (Tp21.buffer_hash dest mid.source_address) = some b) :
    (processCm cfg s now mid dest data).outs = [.notify mid.priority (Tp21.cm_pgn data) mid.source_address dest data, .wake] ∧
    (processCm cfg s now mid dest data).st.snd.get? (Tp21.buffer_hash dest mid.source_address) =
      some { b with state := S_FINISHED, deadline := now } := by
  have hl' : ¬ data.length < 8 := by omega
  unfold processCm
  simp [hl', hc, hb, PyDict.get?_set_self]

/-! ### Broadcast (BAM) from end to end -/

/-- ORIGINATOR, broadcast: `m` due background passes over a broadcast record with `m` packets left put exactly the
    TP.DT frames of those packets on the bus — one per pass, in order, byte-identical chunks of the accepted payload —
    and the last pass deletes the record (`Due`: the first pass at/after the record's deadline, each next one at/after
    the previous pass plus the configured interval) -/
theorem c01_bam_originator_frames (cfg : Cfg) (m : Nat) (times : List Nat) (b : Snd) (ht : times.length = m) (hm : 0 < m)
    (hs : b.state = S_SENDING_BM) (hn : b.next + m = b.numPackages) (hdue : Due cfg b.deadline times) :
    bamRun cfg times b = ((List.range' b.next m).map (fun k => Out.tx (Tp21.dt b.src b.dest (chunk b.data k))), none) :=
  bamRun_frames cfg m times b ht hm hs hn hdue

/-- BAM END TO END (J1939-21): an accepted broadcast of 9 … 1785 bytes, whose record is served by `n = ⌈len/7⌉` due
    background passes (whatever else the originator does in between), puts exactly n + 1 frames on the bus — the
    announcement and the n TP.DT frames in order — and the record is gone afterwards; ANY node that receives these
    frames (whatever its state before, whatever its acceptance filter, at whatever times, under its own configuration)
    delivers the message exactly once: PGN as announced, the originator's address, destination 255, the byte-identical
    payload — and keeps no receive record -/
theorem c01_bam_end_to_end (cfgO cfgR : Cfg) (sO sR : St) (acc : Nat → Bool) (t0 dp pf ps prio sa : Nat) (data : List Nat)
    (hl : 8 < data.length) (hmax : data.length ≤ 1785) (hsa : sa < 256) (hp : prio < 8)
    (hb : (ps == Const.Addr.GLOBAL || PGN.is_pdu2_format (PGN.ofFields 0 pf ps)) = true)
    (hacc : (sendPgn cfgO sO t0 dp pf ps prio sa data).2 = true)
    (passes : List Nat) (hpl : passes.length = Tp21.num_packets data.length)
    (hdue : Due cfgO (t0 + cfgO.bamInterval) passes)
    (rxTimes : List Nat) (hrl : rxTimes.length = Tp21.num_packets data.length + 1) :
    let r0 := (sendPgn cfgO sO t0 dp pf ps prio sa data).1
    let b := bamRec cfgO t0 dp pf ps prio sa data
    let run := bamRun cfgO passes b
    let wire := txFrames r0.outs ++ txFrames run.1
    r0.st.snd.get? (Tp21.buffer_hash sa 255) = some b ∧ run.2 = none ∧
    wire.length = Tp21.num_packets data.length + 1 ∧
    deliveries (rxAll cfgR acc sR (rxTimes.zip wire)).2 = [(7, bamPgn dp pf ps, sa, 255, data)] ∧
    (rxAll cfgR acc sR (rxTimes.zip wire)).1.rcv.get? (Tp21.buffer_hash sa 255) = none := by
  intro r0 b run wire
  have hn : 0 < Tp21.num_packets data.length := by
    have := (num_packets_spec data.length).1; omega
  have hn255 : Tp21.num_packets data.length < 256 := by
    have := (num_packets_le_255 data.length).2 hmax; omega
  have hr0 : r0 = _ := sendPgn_bam cfgO sO t0 dp pf ps prio sa data hl hb hacc
  have hrun : run = _ := bamRun_frames cfgO (Tp21.num_packets data.length) passes b hpl hn rfl (by simp [b, bamRec]) hdue
  have hwire : wire = Tp21.bam sa prio (bamPgn dp pf ps) data.length (Tp21.num_packets data.length) ::
      (List.range' 0 (Tp21.num_packets data.length)).map (fun k => Tp21.dt sa 255 (chunk data k)) := by
    simp only [wire, hr0, hrun]
    rw [txFrames_map]
    simp [txFrames, b, bamRec]
  obtain ⟨t, ts, rfl⟩ : ∃ t ts, rxTimes = t :: ts := by
    cases rxTimes with
    | nil => simp at hrl
    | cons t ts => exact ⟨t, ts, rfl⟩
  simp only [List.length_cons, Nat.add_right_cancel_iff] at hrl
  refine ⟨by rw [hr0]; exact PyDict.get?_set_self _ _ _, by rw [hrun], by rw [hwire]; simp, ?_⟩
  rw [hwire]
  obtain ⟨e1, e2, rc, e3, e4, e5, e6⟩ := rx_bam cfgR sR t acc sa prio (bamPgn dp pf ps) data.length (Tp21.num_packets data.length)
    hsa hp (by omega) hn255 (bamPgn_lt dp pf ps)
  obtain ⟨m1, m2, _⟩ := tp_id_parse 7 235 255 sa (by omega) (by omega) (by omega) hsa
  have hz : ts.zip ((List.range' 0 (Tp21.num_packets data.length)).map (fun k => Tp21.dt sa 255 (chunk data k))) =
      (ts.zip ((List.range' 0 (Tp21.num_packets data.length)).map (chunk data))).map (fun p => (p.1, Tp21.dt sa 255 p.2)) := by
    exact zip_map_comp ts _ (chunk data) (Tp21.dt sa 255)
  simp only [List.zip_cons_cons, rxAll, hz]
  rw [rxAll_dt cfgR acc sa hsa]
  have := feed_delivers data (by omega) _ 255 (Tp21.num_packets data.length) 0 (by omega) hn ts hrl _ rc
    (by rw [m1]; exact e3) e4 (by rw [e5]; rfl) (fun h => absurd rfl h)
  simp only at this
  have h2 := this.2
  rw [m1] at h2
  rw [deliveries_append, e1, List.nil_append, this.1, m1, m2, e6]
  exact ⟨rfl, h2⟩

/-- the hypotheses of `c01_bam_end_to_end` are satisfiable: a 20-byte PDU2 message on an empty stack, three passes -/
example : (sendPgn {} {} 1000 0 254 202 6 128 (List.range 20)).2 = true ∧
    (202 == Const.Addr.GLOBAL || PGN.is_pdu2_format (PGN.ofFields 0 254 202)) = true ∧
    Due {} (1000 + ({} : Cfg).bamInterval) [51000, 101000, 160000] ∧ Tp21.num_packets (List.range 20).length = 3 := by
  refine ⟨by decide, by decide, ?_, by decide⟩
  simp [Due, Const.Default.bam_interval_21]

end J1939.Props.C01
