/-
  C14 — PGN requests reach exactly the addressed operational CAs; claims are answered.
-/
import J1939.Model.Ca
import J1939.Model.Dll21
import J1939.Lemmas.Tactics
import J1939.Lemmas.ConstCa
import J1939.Lemmas.Bits
import J1939.Lemmas.Seg21
import J1939.Lemmas.Bam21
namespace J1939.Props.C14
open J1939 J1939.Gen J1939.Ca J1939.Bits

/-- REQUEST CODEC: the three request bytes are the little-endian PGN and decode back to it — for all 2^24 values,
    hence for all 2^18 PGNs of both data pages (and the reserved bit) of the REQUESTED group -/
theorem c14_request_codec (pgn : Nat) (h : pgn < 16777216) :
    Gen.Ca.request_data pgn = Ref.pgnLE pgn ∧ Gen.Ca.request_pgn (Gen.Ca.request_data pgn) = pgn := by
  simp only [Gen.Ca.request_data, Gen.Ca.request_pgn, Ref.pgnLE, and_255, shr_8, shr_16, Py.idx, List.getD_cons_zero,
    List.getD_cons_succ, shl_8, shl_16]
  refine ⟨trivial, ?_⟩
  have o1 : pgn % 256 ||| pgn / 256 % 256 * 256 = pgn / 256 % 256 * 256 + pgn % 256 := by
    rw [Nat.or_comm]; have := mul_or (pgn / 256 % 256) (pgn % 256) 8 (by simp only [Nat.reducePow]; omega); simpa using this
  have o2 : (pgn / 256 % 256 * 256 + pgn % 256) ||| pgn / 65536 % 256 * 65536 = pgn / 65536 % 256 * 65536 + (pgn / 256 % 256 * 256 + pgn % 256) := by
    rw [Nat.or_comm]; have := mul_or (pgn / 65536 % 256) (pgn / 256 % 256 * 256 + pgn % 256) 16 (by simp only [Nat.reducePow]; omega); simpa using this
  rw [o1, o2]; omega

/-- THE REQUEST FRAME: an operational CA at address `a` sending send_request(0, pgn, dest) hands the data link layer
    PF 0xEA, PS = dest, priority 6, its own address and the three bytes; on J1939-21 that is ONE frame with identifier
    priority 6 | 0xEA | dest | a -/
theorem c14_request_frame (c : Ca.Ca) (a pgn dest : Nat) (h : c.state = NORMAL) (ha : c.addr = some a) (hd : dest < 256) (ha' : a < 256)
    (cfg : Dll21.Cfg) (s : Dll21.St) (now : Nat) :
    sendRequest c pgn dest = some (a, 234, dest, 6, Gen.Ca.request_data pgn) ∧
    (Dll21.sendPgn cfg s now 0 234 dest 6 a (Gen.Ca.request_data pgn)).1.outs =
      [.tx { id := 6 * 67108864 + (234 * 256 + dest) * 256 + a, ext := true, data := Gen.Ca.request_data pgn }] := by
  have h' : (c.state != NORMAL) = false := by simp [h]
  refine ⟨?_, ?_⟩
  · simp only [sendRequest, h', ha, Bool.false_eq_true, if_false, and_255]
    have : Const.PGN.REQUEST >>> 8 % 256 = 234 := by decide
    simp only [this]
    have : dest % 256 = dest := by omega
    rw [this]
  · have hl : (Gen.Ca.request_data pgn).length ≤ 8 := by simp [Gen.Ca.request_data]
    unfold Dll21.sendPgn
    simp only [hl, if_true]
    rw [Dll21.pdu1_id]
    have e1 : dest % 256 = dest := by omega
    have e2 : a % 256 = a := by omega
    simp [e1, e2]

/-- DISPATCH at one CA: for a request (sa, dest, pgn) that reached it, the request callbacks run — once, with exactly
    (sa, dest, pgn) — iff the CA is operational AND owns `dest` (or dest is global) AND pgn is not the address-claim PGN;
    for the address-claim PGN such a CA answers with its address-claimed frame from its address; every other CA does nothing -/
theorem c14_dispatch (c : Ca.Ca) (sa dest : Nat) (data : List Nat) (hl : 3 ≤ data.length) :
    let pgn := Gen.Ca.request_pgn data
    let addressed := c.state = NORMAL ∧ (c.addr = some dest ∨ dest = 255)
    (addressed ∧ pgn ≠ Const.PGN.ADDRESSCLAIM → processRequest c sa dest data = some (.callbacks sa dest pgn)) ∧
    (addressed ∧ pgn = Const.PGN.ADDRESSCLAIM → ∀ a, c.addr = some a → processRequest c sa dest data = some (.claim (claimFrame c a))) ∧
    (¬ addressed → processRequest c sa dest data = some .nothing) := by
  have hl' : ¬ data.length < 3 := by omega
  unfold processRequest
  simp only [hl', if_false]
  refine ⟨?_, ?_, ?_⟩
  · rintro ⟨⟨h1, h2⟩, h3⟩
    have e1 : (c.state != NORMAL) = false := by simp [h1]
    have e3 : (Gen.Ca.request_pgn data == Const.PGN.ADDRESSCLAIM) = false := by simpa using h3
    rcases h2 with h2 | h2
    · simp [e1, h2, e3]
    · simp [e1, h2, e3]
  · rintro ⟨⟨h1, h2⟩, h3⟩ a ha
    have e1 : (c.state != NORMAL) = false := by simp [h1]
    rcases h2 with h2 | h2
    · simp [e1, h2, h3]; rw [ha] at h2; cases h2; rfl
    · simp [e1, h2, h3, ha]
  · intro hn
    by_cases h1 : c.state = NORMAL
    · have e1 : (c.state != NORMAL) = false := by simp [h1]
      have h2 : ¬ (c.addr = some dest ∨ dest = 255) := fun h => hn ⟨h1, h⟩
      have h2a : c.addr ≠ some dest := fun h => h2 (Or.inl h)
      have h2b : dest ≠ 255 := fun h => h2 (Or.inr h)
      simp [e1, h2a, h2b]
    · have e1 : (c.state != NORMAL) = true := by simpa using h1
      simp [e1]

/-- DISPATCH at the data link layer (J1939-21): a request frame is passed to the CAs iff its destination is global or a
    local listener/CA accepts it; it never creates transport state and never transmits by itself -/
theorem c14_dll_passes_request (cfg : Dll21.Cfg) (s : Dll21.St) (now : Nat) (acc : Nat → Bool) (canId : Nat) (data : List Nat)
    (hpdu1 : PGN.is_pdu2_format (PGN.from_message_id (MessageId.ofCanId canId)) = false)
    (hreq : Tp21.notify_pgn_value (PGN.from_message_id (MessageId.ofCanId canId)) = Const.PGN.REQUEST) :
    let dest := (PGN.from_message_id (MessageId.ofCanId canId)).pdu_specific
    Dll21.notify cfg s now acc canId data =
      { st := s, outs := if dest = 255 ∨ acc dest = true then [.request (MessageId.ofCanId canId).source_address dest data] else [] } := by
  have hne : Const.PGN.REQUEST ≠ Const.PGN.ADDRESSCLAIM := by decide
  unfold Dll21.notify
  simp only [hpdu1, Bool.false_eq_true, if_false, hreq]
  by_cases hd : (PGN.from_message_id (MessageId.ofCanId canId)).pdu_specific = 255
  · simp [hd, hne]
  · cases ha : acc (PGN.from_message_id (MessageId.ofCanId canId)).pdu_specific <;> simp [hd, ha, hne]

theorem mask_req : ∀ da, da < 256 → (59904 + da) &&& 130816 = 59904 := by decide +kernel

/-- REQUEST FROM END TO END (J1939-21): an operational CA at `a` calls send_request(0, pgn, dest) for any 24-bit PGN; the
    ONE frame it puts on the bus, received by any other stack, is handed to that stack's CAs iff dest is global or
    accepted there — with the requester's address `a`, the destination and the three bytes — and every CA that is
    operational and owns `dest` (or dest is global) runs its request callbacks once with EXACTLY (a, dest, pgn) (or, for
    the address-claim PGN, answers with its address-claimed frame); every other CA does nothing -/
theorem c14_request_end_to_end (c : Ca.Ca) (a pgn dest : Nat) (h : c.state = NORMAL) (ha : c.addr = some a) (hd : dest < 256) (ha' : a < 256)
    (hp : pgn < 16777216) (cfgO cfgR : Dll21.Cfg) (sO sR : Dll21.St) (t0 t1 : Nat) (acc : Nat → Bool) (r : Ca.Ca) :
    ∃ f, (Dll21.sendPgn cfgO sO t0 0 234 dest 6 a (Gen.Ca.request_data pgn)).1.outs = [.tx f] ∧
      Dll21.notify cfgR sR t1 acc f.id f.data =
        { st := sR, outs := if dest = 255 ∨ acc dest = true then [.request a dest (Gen.Ca.request_data pgn)] else [] } ∧
      let addressed := r.state = NORMAL ∧ (r.addr = some dest ∨ dest = 255)
      (addressed ∧ pgn ≠ Const.PGN.ADDRESSCLAIM → processRequest r a dest f.data = some (.callbacks a dest pgn)) ∧
      (addressed ∧ pgn = Const.PGN.ADDRESSCLAIM → ∀ ra, r.addr = some ra → processRequest r a dest f.data = some (.claim (claimFrame r ra))) ∧
      (¬ addressed → processRequest r a dest f.data = some .nothing) := by
  obtain ⟨_, hframe⟩ := c14_request_frame c a pgn dest h ha hd ha' cfgO sO t0
  refine ⟨_, hframe, ?_, ?_⟩
  · -- the receiving data link layer
    have hid : 6 * 67108864 + (234 * 256 + dest) * 256 + a =
        MessageId.can_id (MessageId.ofFields 6 (PGN.value (PGN.ofFields 0 234 dest)) a) := by
      rw [Dll21.pdu1_id]; omega
    obtain ⟨p1, _, p3⟩ := Dll21.tp_id_parse 6 234 dest a (by omega) (by omega) hd ha'
    have hpdu1 : PGN.is_pdu2_format (PGN.from_message_id (MessageId.ofCanId (6 * 67108864 + (234 * 256 + dest) * 256 + a))) = false := by
      rw [hid, p3]; simp [PGN.is_pdu2_format]
    have hreq : Tp21.notify_pgn_value (PGN.from_message_id (MessageId.ofCanId (6 * 67108864 + (234 * 256 + dest) * 256 + a))) = Const.PGN.REQUEST := by
      rw [hid, p3]
      have hv : PGN.value { data_page := 0, pdu_format := 234, pdu_specific := dest } = 59904 + dest := by
        rw [Lemmas.pgn_value_arith _ (by simp only [Lemmas.PGN.WF]; omega)]; simp only
      rw [Tp21.notify_pgn_value, hv]; exact mask_req dest hd
    have := c14_dll_passes_request cfgR sR t1 acc _ (Gen.Ca.request_data pgn) hpdu1 hreq
    simp only at this
    rw [this, hid, p3, p1]
  · -- the CA behind it: the three bytes decode to the requested PGN
    have hl : 3 ≤ (Gen.Ca.request_data pgn).length := by simp [Gen.Ca.request_data]
    have hdec := (c14_request_codec pgn hp).2
    have := c14_dispatch r a dest (Gen.Ca.request_data pgn) hl
    simp only [hdec] at this
    exact this

end J1939.Props.C14
