/-
  C10 — Transport capacity is conserved over any history of good and failed transfers.
  J1939-21 part (Model/Dll21.lean): one transfer per (source, destination) pair; refusal exactly while busy;
  inbound sessions never touch the outbound table; every send record is released by the background pass.
  (The J1939-22 part, session pools, is in the second half of this file once Model/Dll22 is in place.)
-/
import J1939.Model.Dll21
import J1939.Lemmas.PyDict
import J1939.Lemmas.Tactics
import J1939.Lemmas.Const21
import J1939.Model.Dll22
import J1939.Lemmas.Cons22
import J1939.Props.C07
import J1939.Props.C01
namespace J1939.Props.C10
open J1939 J1939.Gen J1939.Dll21

/-- the destination a message of more than 8 bytes is sent to: PS for a PDU1 PGN with PS ≠ 255, else global -/
def destOf (pf ps : Nat) : Nat :=
  if ps == Const.Addr.GLOBAL || PGN.is_pdu2_format (PGN.ofFields 0 pf ps) then Const.Addr.GLOBAL else ps

/-- REFUSAL IFF BUSY: `send_pgn` of more than 8 bytes returns False exactly when a transfer on that (SA, DA) pair is in
    the send table; a refused call emits nothing, raises nothing and leaves the state EQUAL -/
theorem c10_refusal_iff_busy (cfg : Cfg) (s : St) (now dp pf ps prio sa : Nat) (data : List Nat) (hl : 8 < data.length) :
    ((sendPgn cfg s now dp pf ps prio sa data).2 = false ↔ s.snd.contains (Tp21.buffer_hash sa (destOf pf ps)) = true) ∧
    ((sendPgn cfg s now dp pf ps prio sa data).2 = false →
        (sendPgn cfg s now dp pf ps prio sa data).1.st = s ∧ (sendPgn cfg s now dp pf ps prio sa data).1.outs = [] ∧
        (sendPgn cfg s now dp pf ps prio sa data).1.err = none) := by
  have hl' : ¬ data.length ≤ 8 := by omega
  unfold sendPgn destOf
  simp only [hl', if_false]
  refine ⟨?_, ?_⟩ <;> (repeat' split) <;> simp_all

/-- an accepted call occupies exactly its own pair and no other -/
theorem c10_accept_occupies (cfg : Cfg) (s : St) (now dp pf ps prio sa : Nat) (data : List Nat) (hl : 8 < data.length)
    (hacc : (sendPgn cfg s now dp pf ps prio sa data).2 = true) (k : Nat) :
    (sendPgn cfg s now dp pf ps prio sa data).1.st.snd.contains k =
      (k == Tp21.buffer_hash sa (destOf pf ps) || s.snd.contains k) := by
  have hl' : ¬ data.length ≤ 8 := by omega
  unfold sendPgn destOf at *
  simp only [hl', if_false] at *
  by_cases hk : k = Tp21.buffer_hash sa (if (ps == Const.Addr.GLOBAL || PGN.is_pdu2_format (PGN.ofFields 0 pf ps)) = true then Const.Addr.GLOBAL else ps)
  · subst hk
    (repeat' split) <;> simp_all [PyDict.contains_set_self]
  · have hk' : (k == Tp21.buffer_hash sa (if (ps == Const.Addr.GLOBAL || PGN.is_pdu2_format (PGN.ofFields 0 pf ps)) = true then Const.Addr.GLOBAL else ps)) = false := by
      simpa using hk
    (repeat' split) <;> simp_all [PyDict.contains_set_ne]

/-- short messages never use the tables: always accepted, state unchanged -/
theorem c10_short_never_refused (cfg : Cfg) (s : St) (now dp pf ps prio sa : Nat) (data : List Nat) (hl : data.length ≤ 8) :
    (sendPgn cfg s now dp pf ps prio sa data).2 = true ∧ (sendPgn cfg s now dp pf ps prio sa data).1.st = s := by
  unfold sendPgn; simp [hl]

/-- INBOUND NEVER TOUCHES OUTBOUND: handling an RTS, a BAM announcement or any TP.DT leaves the send table as it is -/
theorem c10_dt_keeps_snd (s : St) (now : Nat) (mid : MessageId) (dest : Nat) (data : List Nat) :
    (processDt s now mid dest data).st.snd = s.snd := by
  unfold processDt
  crack

theorem c10_rts_bam_keep_snd (cfg : Cfg) (s : St) (now : Nat) (mid : MessageId) (dest : Nat) (data : List Nat)
    (h : Tp21.cm_control data = Const.CM21.RTS ∨ Tp21.cm_control data = Const.CM21.BAM) :
    (processCm cfg s now mid dest data).st.snd = s.snd := by
  unfold processCm
  rcases h with h | h <;> crack

/-- and the receive side of the background pass never touches the send table either -/
theorem c10_tickRcv_keeps_snd (now : Nat) (ks : List Nat) (s : St) (nw : Nat) (o : List Out) :
    (tickRcv now ks s nw o).1.snd = s.snd := by
  induction ks generalizing s nw o with
  | nil => rfl
  | cons k ks ih =>
    unfold tickRcv
    crack

/-- PEER ABORT RELEASES PROMPTLY: an abort from the responder while the originator waits for a CTS marks the record
    finished, due at once, AND wakes the background thread (without the wake-up the pair stayed blocked until the T3
    deadline the thread was sleeping towards — defect D25); the pass that follows deletes the record without a frame -/
theorem c10_abort_releases (cfg : Cfg) (s : St) (now : Nat) (mid : MessageId) (dest : Nat) (data : List Nat) (b : Snd)
    (hl : 8 ≤ data.length) (hc : Tp21.cm_control data = Const.CM21.ABORT)
    (hg : s.snd.get? (Tp21.buffer_hash dest mid.source_address) = some b) (hs : b.state = S_WAITING_CTS) :
    Out.wake ∈ (processCm cfg s now mid dest data).outs ∧
    (processCm cfg s now mid dest data).st.snd.get? (Tp21.buffer_hash dest mid.source_address)
      = some { b with state := S_FINISHED, deadline := now } ∧
    (∀ now', now ≤ now' → 0 < now → tickSndOne cfg now' { b with state := S_FINISHED, deadline := now } = (none, [], none, none)) := by
  have hl' : ¬ data.length < 8 := by omega
  refine ⟨?_, ?_, ?_⟩
  · unfold processCm
    simp only [hl', if_false, hc, hg, hs]
    simp
  · unfold processCm
    simp only [hl', if_false, hc, hg, hs]
    simp [PyDict.get?_set_self]
  · intro now' h1 h0
    unfold tickSndOne
    have : ¬ now > now' := by omega
    have h0' : now ≠ 0 := by omega
    simp [this, h0', S_FINISHED, S_WAITING_CTS, S_SENDING_IN_CTS, S_SENDING_BM]

/-- frame rule: `send_pgn` (any length, accepted or refused) touches at most the send record under its own key and
    never the receive table -/
theorem sendPgn_get?_other (cfg : Cfg) (s : St) (now dp pf ps prio sa : Nat) (data : List Nat) (k : Nat)
    (hk : k ≠ Tp21.buffer_hash sa (destOf pf ps)) :
    (sendPgn cfg s now dp pf ps prio sa data).1.st.snd.get? k = s.snd.get? k ∧
    (sendPgn cfg s now dp pf ps prio sa data).1.st.rcv = s.rcv := by
  unfold sendPgn destOf at *
  refine ⟨?_, ?_⟩ <;> (repeat' split) <;> simp_all [PyDict.get?_set_ne] <;> (repeat' split) <;> simp_all [PyDict.get?_set_ne]

/-- A SEND NEVER DISTURBS ANOTHER PAIR'S TRANSFER: whatever `send_pgn` is called with, the transfer in flight between any
    OTHER (source, destination) pair keeps its record unchanged (uses the injectivity of the session key regenerated
    from the source, `C01.c01_session_key_injective`) and no inbound session is touched -/
theorem c10_send_keeps_other_pairs (cfg : Cfg) (s : St) (now dp pf ps prio sa : Nat) (data : List Nat) (sa' da' : Nat)
    (h1 : sa < 256) (h2 : destOf pf ps < 256) (h3 : sa' < 256) (h4 : da' < 256) (hne : ¬ (sa' = sa ∧ da' = destOf pf ps)) :
    (sendPgn cfg s now dp pf ps prio sa data).1.st.snd.get? (Tp21.buffer_hash sa' da') = s.snd.get? (Tp21.buffer_hash sa' da') ∧
    (sendPgn cfg s now dp pf ps prio sa data).1.st.rcv = s.rcv := by
  apply sendPgn_get?_other
  intro h
  exact hne (J1939.Props.C01.c01_session_key_injective sa' da' sa (destOf pf ps) h3 h4 h1 h2 h)

/-- hypotheses satisfiable and the conclusion non-trivial: 0x80 → 0x90 is accepted while 0x80 → 0x91 is in flight -/
example : destOf 239 0x90 < 256 ∧ ¬ ((0x80 : Nat) = 0x80 ∧ (0x91 : Nat) = destOf 239 0x90) ∧
    (sendPgn {} (sendPgn {} {} 1000 0 239 0x91 6 0x80 (List.range 20)).1.st 2000 0 239 0x90 6 0x80 (List.range 30)).2 = true := by
  refine ⟨by decide, by decide, by decide⟩

/-- frame rules of the receive path: a TP.DT / TP.CM frame from `src` to `dest` touches at most the inbound record of
    (src, dest) and the outbound record of (dest, src) -/
theorem processDt_get?_other (s : St) (now : Nat) (mid : MessageId) (dest : Nat) (data : List Nat) (k : Nat)
    (hk : k ≠ Tp21.buffer_hash mid.source_address dest) :
    (processDt s now mid dest data).st.rcv.get? k = s.rcv.get? k := by
  unfold processDt
  crack [PyDict.get?_set_ne, PyDict.get?_erase_ne]

theorem processCm_get?_other (cfg : Cfg) (s : St) (now : Nat) (mid : MessageId) (dest : Nat) (data : List Nat) (k : Nat)
    (hk : k ≠ Tp21.buffer_hash mid.source_address dest) :
    (processCm cfg s now mid dest data).st.rcv.get? k = s.rcv.get? k := by
  unfold processCm
  crack [PyDict.get?_set_ne, PyDict.get?_erase_ne]

theorem processCm_snd_get?_other (cfg : Cfg) (s : St) (now : Nat) (mid : MessageId) (dest : Nat) (data : List Nat) (k : Nat)
    (hk : k ≠ Tp21.buffer_hash dest mid.source_address) :
    (processCm cfg s now mid dest data).st.snd.get? k = s.snd.get? k := by
  unfold processCm
  crack [PyDict.get?_set_ne, PyDict.get?_erase_ne]

/-- TRANSPORT FRAMES OF ONE PEER PAIR NEVER TOUCH ANOTHER PAIR'S SESSIONS: any TP.CM (RTS, CTS, EOM-ACK, BAM, abort,
    unknown control byte, any 8 bytes) or TP.DT from `src` to `dest` leaves the inbound session of every other
    (source, destination) pair and the outbound session of every pair other than (dest, src) exactly as it was —
    a peer cannot advance, corrupt, complete or free a transfer that is not its own -/
theorem c10_frames_keep_other_pairs (cfg : Cfg) (s : St) (now : Nat) (mid : MessageId) (dest : Nat) (data : List Nat) (sa' da' : Nat)
    (h1 : mid.source_address < 256) (h2 : dest < 256) (h3 : sa' < 256) (h4 : da' < 256) :
    (¬ (sa' = mid.source_address ∧ da' = dest) →
      (processCm cfg s now mid dest data).st.rcv.get? (Tp21.buffer_hash sa' da') = s.rcv.get? (Tp21.buffer_hash sa' da') ∧
      (processDt s now mid dest data).st.rcv.get? (Tp21.buffer_hash sa' da') = s.rcv.get? (Tp21.buffer_hash sa' da')) ∧
    (¬ (sa' = dest ∧ da' = mid.source_address) →
      (processCm cfg s now mid dest data).st.snd.get? (Tp21.buffer_hash sa' da') = s.snd.get? (Tp21.buffer_hash sa' da') ∧
      (processDt s now mid dest data).st.snd = s.snd) := by
  refine ⟨fun hne => ⟨?_, ?_⟩, fun hne => ⟨?_, c10_dt_keeps_snd s now mid dest data⟩⟩
  · exact processCm_get?_other cfg s now mid dest data _
      (fun h => hne (J1939.Props.C01.c01_session_key_injective sa' da' mid.source_address dest h3 h4 h1 h2 h))
  · exact processDt_get?_other s now mid dest data _
      (fun h => hne (J1939.Props.C01.c01_session_key_injective sa' da' mid.source_address dest h3 h4 h1 h2 h))
  · exact processCm_snd_get?_other cfg s now mid dest data _
      (fun h => hne (J1939.Props.C01.c01_session_key_injective sa' da' dest mid.source_address h3 h4 h2 h1 h))

end J1939.Props.C10

/-! ## J1939-22 (FD) -/
namespace J1939.Props.C10
open J1939 J1939.Gen J1939.Dll22

/-- J1939-22, EVERY EXIT OF AN ORIGINATOR SESSION RETURNS ITS NUMBER: whenever the background pass deletes a send
    record — timeout while waiting for CTS, timeout or arrival of the end-of-message acknowledgement, peer abort
    (FINISHED, repair of D22), end of a broadcast — it returns exactly that record's session number to the pool of its
    kind; a record that stays returns nothing.  With `c02_accept_takes_one` (an accepted message takes one number) and
    `c02_notify_keeps_pools` (no received frame touches a pool) this is the conservation of the 8 + 4 capacity -/
theorem c10_22_deleted_returns_number (cfg : Cfg) (now : Nat) (b : Snd) (hd0 : b.deadline ≠ 0) (hdue : b.deadline ≤ now) :
    (b.state = S_WAITING_CTS → (tickSndOne cfg now b).1 = none ∧ (tickSndOne cfg now b).2.2.2.2 = .rts b.session) ∧
    (b.state = S_WAITING_EOM_ACK → (tickSndOne cfg now b).1 = none ∧ (tickSndOne cfg now b).2.2.2.2 = .rts b.session) ∧
    (b.state = S_EOM_ACK_RECEIVED → (tickSndOne cfg now b).1 = none ∧ (tickSndOne cfg now b).2.2.2.2 = .rts b.session) ∧
    (b.state = S_FINISHED → (tickSndOne cfg now b).1 = none ∧ (tickSndOne cfg now b).2.2.2.2 = .rts b.session) ∧
    (b.state = S_SENDING_EOM_STATUS → (tickSndOne cfg now b).1 = none ∧ (tickSndOne cfg now b).2.2.2.2 = .bam b.session) := by
  have h0 : (b.deadline != 0) = true := by simpa using hd0
  have hf : ¬ b.deadline > now := by omega
  refine ⟨?_, ?_, ?_, ?_, ?_⟩ <;> intro h <;> unfold tickSndOne <;> simp only [h0, hf, if_true, if_false, h]
  · simp only [beq_self_eq_true, if_true]
    exact ⟨trivial, trivial⟩
  · have e1 : (S_WAITING_EOM_ACK == S_WAITING_CTS) = false := by decide
    have e2 : (S_WAITING_EOM_ACK == S_SENDING_RTS_CTS) = false := by decide
    simp only [e1, e2, Bool.false_eq_true, if_false, beq_self_eq_true, if_true]
    exact ⟨trivial, trivial⟩
  · have e1 : (S_EOM_ACK_RECEIVED == S_WAITING_CTS) = false := by decide
    have e2 : (S_EOM_ACK_RECEIVED == S_SENDING_RTS_CTS) = false := by decide
    have e3 : (S_EOM_ACK_RECEIVED == S_WAITING_EOM_ACK) = false := by decide
    simp only [e1, e2, e3, Bool.false_eq_true, if_false, beq_self_eq_true, if_true]
    exact ⟨trivial, trivial⟩
  · have e1 : (S_FINISHED == S_WAITING_CTS) = false := by decide
    have e2 : (S_FINISHED == S_SENDING_RTS_CTS) = false := by decide
    have e3 : (S_FINISHED == S_WAITING_EOM_ACK) = false := by decide
    have e4 : (S_FINISHED == S_EOM_ACK_RECEIVED) = false := by decide
    have e5 : (S_FINISHED == S_SENDING_BAM) = false := by decide
    have e6 : (S_FINISHED == S_SENDING_EOM_STATUS) = false := by decide
    simp only [e1, e2, e3, e4, e5, e6, Bool.false_eq_true, if_false, beq_self_eq_true, if_true]
    exact ⟨trivial, trivial⟩
  · have e1 : (S_SENDING_EOM_STATUS == S_WAITING_CTS) = false := by decide
    have e2 : (S_SENDING_EOM_STATUS == S_SENDING_RTS_CTS) = false := by decide
    have e3 : (S_SENDING_EOM_STATUS == S_WAITING_EOM_ACK) = false := by decide
    have e4 : (S_SENDING_EOM_STATUS == S_EOM_ACK_RECEIVED) = false := by decide
    have e5 : (S_SENDING_EOM_STATUS == S_SENDING_BAM) = false := by decide
    simp only [e1, e2, e3, e4, e5, Bool.false_eq_true, if_false, beq_self_eq_true, if_true]
    exact ⟨trivial, trivial⟩

/-! ## J1939-22: conservation of the session pools over every history -/
section cons22
open J1939.Dll22 J1939.Props.C07

/-- the invariant holds initially (empty tables, 8 + 4 free numbers) -/
theorem c10_22_cons_init : Cons {} := by
  have none : ∀ k, ({} : Dll22.St).snd.get? k = none := fun _ => rfl
  have noFalse : ∀ n (j : Nat), (List.replicate n true)[j]? = some false → False := by
    intro n j hj
    rw [List.getElem?_replicate] at hj
    split at hj <;> cases hj
  refine ⟨by decide, by decide, ?_, ?_, ?_, ?_, ?_, ?_, ?_, ?_, ?_, ?_⟩
  · intro k b hk; rw [none k] at hk; cases hk
  · intro k b hk; rw [none k] at hk; cases hk
  · intro k b hk; rw [none k] at hk; cases hk
  · intro k b hk; rw [none k] at hk; cases hk
  · intro k b hk; rw [none k] at hk; cases hk
  · intro k b hk; rw [none k] at hk; cases hk
  · intro k k' b b' hk; rw [none k] at hk; cases hk
  · intro k k' b b' hk; rw [none k] at hk; cases hk
  · intro i hi; exact absurd hi (noFalse _ i)
  · intro i hi; exact absurd hi (noFalse _ i)

/-- CONSERVATION OVER EVERY HISTORY (J1939-22): after ANY sequence of send_pgn calls (any arguments with a one-byte PS,
    accepted or refused), received frames (any identifier, any content — after the repair of D29 also from the illegal
    source 255) and background passes (any times, whatever times out), the send table and the two pools agree exactly:
    every session record holds a number that is marked used in the pool of its kind, no two records of a kind share a
    number, and EVERY used number belongs to a live record of that kind — no number is ever lost or handed out twice -/
theorem c10_22_conservation (cfg : Dll22.Cfg) (acc : Nat → Bool) (evs : List Ev22)
    (hps : ∀ e ∈ evs, ∀ now dp pf ps prio sa data tl ff, e = Ev22.send now dp pf ps prio sa data tl ff → ps < 256) :
    Cons (evs.foldl (step22 cfg acc) {}) := by
  suffices ∀ s, Cons s → Cons (evs.foldl (step22 cfg acc) s) from this _ c10_22_cons_init
  induction evs with
  | nil => intro s h; exact h
  | cons e es ih =>
    intro s h
    simp only [List.foldl_cons]
    apply ih (fun e' he' => hps e' (List.mem_cons_of_mem _ he'))
    cases e with
    | send now dp pf ps prio sa data tl ff =>
      exact sendPgn_cons cfg s now dp pf ps prio sa data tl ff (hps _ (List.mem_cons_self ..) now dp pf ps prio sa data tl ff rfl) h
    | rx now canId data => exact notify_cons cfg s now acc canId data h
    | pass now => exact tick_cons cfg s now h

/-- … in particular a session number is in use EXACTLY when a live session of that kind holds it -/
theorem c10_22_used_iff_held (s : Dll22.St) (h : Cons s) (i : Nat) :
    (s.rtsPool[i]? = some false ↔ ∃ k b, s.snd.get? k = some b ∧ KRts b.state ∧ b.session = i) ∧
    (s.bamPool[i]? = some false ↔ ∃ k b, s.snd.get? k = some b ∧ KBam b.state ∧ b.session = i) := by
  refine ⟨⟨h.ownR i, ?_⟩, ⟨h.ownB i, ?_⟩⟩
  · rintro ⟨k, b, hk, hr, rfl⟩; exact h.usedR k b hk hr
  · rintro ⟨k, b, hk, hb, rfl⟩; exact h.usedB k b hk hb

/-- … and whenever no transfer is running the FULL advertised capacity (8 destination-specific + 4 broadcast sessions)
    is available again, whatever happened before -/
theorem c10_22_idle_means_full (s : Dll22.St) (h : Cons s) (hidle : s.snd = []) :
    s.rtsPool = List.replicate 8 true ∧ s.bamPool = List.replicate 4 true := by
  have none : ∀ k, s.snd.get? k = none := by intro k; rw [hidle]; rfl
  have allTrue : ∀ (p : List Bool) (n : Nat), p.length = n → (∀ i : Nat, p[i]? ≠ some false) → p = List.replicate n true := by
    intro p n hl hf
    apply List.ext_getElem?
    intro i
    rw [List.getElem?_replicate]
    by_cases hi : i < n
    · simp only [hi, if_true]
      have hi' : i < p.length := by omega
      rw [List.getElem?_eq_getElem hi']
      cases hv : p[i] with
      | true => rfl
      | false => exact absurd (by rw [List.getElem?_eq_getElem hi', hv]) (hf i)
    · simp only [hi, if_false]
      exact List.getElem?_eq_none (by omega)
  refine ⟨allTrue _ 8 h.rl ?_, allTrue _ 4 h.bl ?_⟩
  · intro i hi
    obtain ⟨k, b, hk, _⟩ := h.ownR i hi
    rw [none k] at hk; cases hk
  · intro i hi
    obtain ⟨k, b, hk, _⟩ := h.ownB i hi
    rw [none k] at hk; cases hk

end cons22

section frames22

/-- J1939-22 frame rules of the receive path: an FD.TP.CM / FD.TP.DT frame from `src` to `dest` carrying session number
    `i` touches at most the inbound record (i, src, dest) and the outbound record (i, dest, src) -/
theorem processDt22_get?_other (s : St) (now : Nat) (mid : MessageId) (dest : Nat) (data : List Nat) (k : Nat)
    (hk : k ≠ Tp22.buffer_hash (Tp22.dt_session data) mid.source_address dest) :
    (processDt s now mid dest data).st.rcv.get? k = s.rcv.get? k := by
  unfold processDt
  crack [PyDict.get?_set_ne, PyDict.get?_erase_ne]

theorem processCm22_get?_other (cfg : Cfg) (s : St) (now : Nat) (mid : MessageId) (dest : Nat) (data : List Nat) (k : Nat)
    (hk : k ≠ Tp22.buffer_hash (Tp22.cm_session data) mid.source_address dest) :
    (processCm cfg s now mid dest data).st.rcv.get? k = s.rcv.get? k := by
  unfold processCm
  crack [PyDict.get?_set_ne, PyDict.get?_erase_ne]

theorem processCm22_snd_get?_other (cfg : Cfg) (s : St) (now : Nat) (mid : MessageId) (dest : Nat) (data : List Nat) (k : Nat)
    (hk : k ≠ Tp22.buffer_hash (Tp22.cm_session data) dest mid.source_address) :
    (processCm cfg s now mid dest data).st.snd.get? k = s.snd.get? k := by
  unfold processCm
  crack [PyDict.get?_set_ne, PyDict.get?_erase_ne]

theorem cm_session_lt (data : List Nat) : Tp22.cm_session data < 16 := by
  simp only [Tp22.cm_session, J1939.Bits.and_15]; omega

theorem dt_session_lt (data : List Nat) : Tp22.dt_session data < 16 := by
  simp only [Tp22.dt_session, J1939.Bits.and_15]; omega

/-- J1939-22, TRANSPORT FRAMES NEVER TOUCH A SESSION THAT IS NOT THEIRS: any FD.TP.CM or FD.TP.DT frame from `src` to
    `dest` leaves every inbound session with another (session number, source, destination) and every outbound session
    with another (session number, dest, src) exactly as it was — the up to 8 + 4 concurrent sessions of a stack and the
    sessions of different peers cannot advance, corrupt, complete or free one another -/
theorem c10_22_frames_keep_other_sessions (cfg : Cfg) (s : St) (now : Nat) (mid : MessageId) (dest : Nat) (data : List Nat)
    (i' sa' da' : Nat) (h1 : mid.source_address < 256) (h2 : dest < 256) (h0 : i' < 16) (h3 : sa' < 256) (h4 : da' < 256) :
    (¬ (i' = Tp22.cm_session data ∧ sa' = mid.source_address ∧ da' = dest) →
      (processCm cfg s now mid dest data).st.rcv.get? (Tp22.buffer_hash i' sa' da') = s.rcv.get? (Tp22.buffer_hash i' sa' da')) ∧
    (¬ (i' = Tp22.dt_session data ∧ sa' = mid.source_address ∧ da' = dest) →
      (processDt s now mid dest data).st.rcv.get? (Tp22.buffer_hash i' sa' da') = s.rcv.get? (Tp22.buffer_hash i' sa' da')) ∧
    (¬ (i' = Tp22.cm_session data ∧ sa' = dest ∧ da' = mid.source_address) →
      (processCm cfg s now mid dest data).st.snd.get? (Tp22.buffer_hash i' sa' da') = s.snd.get? (Tp22.buffer_hash i' sa' da')) := by
  refine ⟨fun hne => ?_, fun hne => ?_, fun hne => ?_⟩
  · exact processCm22_get?_other cfg s now mid dest data _
      (fun h => hne (J1939.Props.C02.c02_session_key_injective i' sa' da' _ mid.source_address dest h0 h3 h4 (cm_session_lt data) h1 h2 h))
  · exact processDt22_get?_other s now mid dest data _
      (fun h => hne (J1939.Props.C02.c02_session_key_injective i' sa' da' _ mid.source_address dest h0 h3 h4 (dt_session_lt data) h1 h2 h))
  · exact processCm22_snd_get?_other cfg s now mid dest data _
      (fun h => hne (J1939.Props.C02.c02_session_key_injective i' sa' da' _ dest mid.source_address h0 h3 h4 (cm_session_lt data) h2 h1 h))

/-- J1939-22: a long `send_pgn` never touches the receive table -/
theorem c10_22_send_keeps_rcv (cfg : Cfg) (s : St) (now dp pf ps prio sa : Nat) (data : List Nat) (tl ff : Nat) (hl : 60 < data.length) :
    (sendPgn cfg s now dp pf ps prio sa data tl ff).1.st.rcv = s.rcv := by
  have hl' : ¬ data.length ≤ Const.DL22.TP := by
    have : Const.DL22.TP = 60 := by decide
    omega
  unfold sendPgn
  simp only [hl', if_false]
  crack

theorem sendPgn22_get?_other (cfg : Cfg) (s : St) (now dp pf ps prio sa : Nat) (data : List Nat) (tl ff : Nat) (hl : 60 < data.length)
    (k : Nat) (hk : ∀ i dst, k ≠ Tp22.buffer_hash i sa dst) :
    (sendPgn cfg s now dp pf ps prio sa data tl ff).1.st.snd.get? k = s.snd.get? k := by
  have hl' : ¬ data.length ≤ Const.DL22.TP := by
    have : Const.DL22.TP = 60 := by decide
    omega
  unfold sendPgn
  simp only [hl', if_false]
  crack [PyDict.get?_set_ne]

/-- J1939-22, A SEND FROM ONE CA NEVER DISTURBS ANOTHER CA'S SESSIONS: a long `send_pgn` from source `sa` (accepted or
    refused) leaves every outbound session of any other source address on this stack unchanged -/
theorem c10_22_send_keeps_other_sources (cfg : Cfg) (s : St) (now dp pf ps prio sa : Nat) (data : List Nat) (tl ff : Nat)
    (hl : 60 < data.length) (i' sa' da' : Nat) (h0 : i' < 16) (h1 : sa < 256) (h3 : sa' < 256) (h4 : da' < 256) (hne : sa' ≠ sa) :
    (sendPgn cfg s now dp pf ps prio sa data tl ff).1.st.snd.get? (Tp22.buffer_hash i' sa' da') = s.snd.get? (Tp22.buffer_hash i' sa' da') := by
  apply sendPgn22_get?_other cfg s now dp pf ps prio sa data tl ff hl
  intro i dst h
  rw [J1939.Props.C02.hash22_arith, J1939.Props.C02.hash22_arith] at h
  omega

end frames22

end J1939.Props.C10
