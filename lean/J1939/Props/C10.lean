/-
  C10 — Transport capacity is conserved over any history of good and failed transfers.
  J1939-21 part (Model/Dll21.lean): one transfer per (source, destination) pair; refusal exactly while busy;
  inbound sessions never touch the outbound table; every send record is released by the background pass.
  (The J1939-22 part, session pools, is in the second half of this file once Model/Dll22 is in place.)
-/
import J1939.Model.Dll21
import J1939.Lemmas.PyDict
import J1939.Lemmas.Tactics
import J1939.Lemmas.Const21
import J1939.Model.Dll22
namespace J1939.Props.C10
open J1939 J1939.Gen J1939.Dll21

/-- the destination a message of more than 8 bytes is sent to: PS for a PDU1 PGN with PS ≠ 255, else global -/
def destOf (pf ps : Nat) : Nat :=
  if ps == Const.Addr.GLOBAL || PGN.is_pdu2_format (PGN.ofFields 0 pf ps) then Const.Addr.GLOBAL else ps

/-- REFUSAL IFF BUSY: `send_pgn` of more than 8 bytes returns False exactly when a transfer on that (SA, DA) pair is in
    the send table; a refused call emits nothing, raises nothing and leaves the state EQUAL -/
theorem c10_refusal_iff_busy (cfg : Cfg) (s : St) (now dp pf ps prio sa : Nat) (data : List Nat) (hl : 8 < data.length) :
    ((sendPgn cfg s now dp pf ps prio sa data).2 = false ↔ s.snd.contains (Tp21.buffer_hash sa (destOf pf ps)) = true) ∧
    ((sendPgn cfg s now dp pf ps prio sa data).2 = false →
        (sendPgn cfg s now dp pf ps prio sa data).1.st = s ∧ (sendPgn cfg s now dp pf ps prio sa data).1.outs = [] ∧
        (sendPgn cfg s now dp pf ps prio sa data).1.err = none) := by
  have hl' : ¬ data.length ≤ 8 := by omega
  unfold sendPgn destOf
  simp only [hl', if_false]
  refine ⟨?_, ?_⟩ <;> (repeat' split) <;> simp_all

/-- an accepted call occupies exactly its own pair and no other -/
theorem c10_accept_occupies (cfg : Cfg) (s : St) (now dp pf ps prio sa : Nat) (data : List Nat) (hl : 8 < data.length)
    (hacc : (sendPgn cfg s now dp pf ps prio sa data).2 = true) (k : Nat) :
    (sendPgn cfg s now dp pf ps prio sa data).1.st.snd.contains k =
      (k == Tp21.buffer_hash sa (destOf pf ps) || s.snd.contains k) := by
  have hl' : ¬ data.length ≤ 8 := by omega
  unfold sendPgn destOf at *
  simp only [hl', if_false] at *
  by_cases hk : k = Tp21.buffer_hash sa (if (ps == Const.Addr.GLOBAL || PGN.is_pdu2_format (PGN.ofFields 0 pf ps)) = true then Const.Addr.GLOBAL else ps)
  · subst hk
    (repeat' split) <;> simp_all [PyDict.contains_set_self]
  · have hk' : (k == Tp21.buffer_hash sa (if (ps == Const.Addr.GLOBAL || PGN.is_pdu2_format (PGN.ofFields 0 pf ps)) = true then Const.Addr.GLOBAL else ps)) = false := by
      simpa using hk
    (repeat' split) <;> simp_all [PyDict.contains_set_ne]

/-- short messages never use the tables: always accepted, state unchanged -/
theorem c10_short_never_refused (cfg : Cfg) (s : St) (now dp pf ps prio sa : Nat) (data : List Nat) (hl : data.length ≤ 8) :
    (sendPgn cfg s now dp pf ps prio sa data).2 = true ∧ (sendPgn cfg s now dp pf ps prio sa data).1.st = s := by
  unfold sendPgn; simp [hl]

/-- INBOUND NEVER TOUCHES OUTBOUND: handling an RTS, a BAM announcement or any TP.DT leaves the send table as it is -/
theorem c10_dt_keeps_snd (s : St) (now : Nat) (mid : MessageId) (dest : Nat) (data : List Nat) :
    (processDt s now mid dest data).st.snd = s.snd := by
  unfold processDt
  crack

theorem c10_rts_bam_keep_snd (cfg : Cfg) (s : St) (now : Nat) (mid : MessageId) (dest : Nat) (data : List Nat)
    (h : Tp21.cm_control data = Const.CM21.RTS ∨ Tp21.cm_control data = Const.CM21.BAM) :
    (processCm cfg s now mid dest data).st.snd = s.snd := by
  unfold processCm
  rcases h with h | h <;> crack

/-- and the receive side of the background pass never touches the send table either -/
theorem c10_tickRcv_keeps_snd (now : Nat) (ks : List Nat) (s : St) (nw : Nat) (o : List Out) :
    (tickRcv now ks s nw o).1.snd = s.snd := by
  induction ks generalizing s nw o with
  | nil => rfl
  | cons k ks ih =>
    unfold tickRcv
    crack

/-- PEER ABORT RELEASES PROMPTLY: an abort from the responder while the originator waits for a CTS marks the record
    finished, due at once, AND wakes the background thread (without the wake-up the pair stayed blocked until the T3
    deadline the thread was sleeping towards — defect D25); the pass that follows deletes the record without a frame -/
theorem c10_abort_releases (cfg : Cfg) (s : St) (now : Nat) (mid : MessageId) (dest : Nat) (data : List Nat) (b : Snd)
    (hl : 8 ≤ data.length) (hc : Tp21.cm_control data = Const.CM21.ABORT)
    (hg : s.snd.get? (Tp21.buffer_hash dest mid.source_address) = some b) (hs : b.state = S_WAITING_CTS) :
    Out.wake ∈ (processCm cfg s now mid dest data).outs ∧
    (processCm cfg s now mid dest data).st.snd.get? (Tp21.buffer_hash dest mid.source_address)
      = some { b with state := S_FINISHED, deadline := now } ∧
    (∀ now', now ≤ now' → 0 < now → tickSndOne cfg now' { b with state := S_FINISHED, deadline := now } = (none, [], none, none)) := by
  have hl' : ¬ data.length < 8 := by omega
  refine ⟨?_, ?_, ?_⟩
  · unfold processCm
    simp only [hl', if_false, hc, hg, hs]
    simp
  · unfold processCm
    simp only [hl', if_false, hc, hg, hs]
    simp [PyDict.get?_set_self]
  · intro now' h1 h0
    unfold tickSndOne
    have : ¬ now > now' := by omega
    have h0' : now ≠ 0 := by omega
    simp [this, h0', S_FINISHED, S_WAITING_CTS, S_SENDING_IN_CTS, S_SENDING_BM]

end J1939.Props.C10

/-! ## J1939-22 (FD) -/
namespace J1939.Props.C10
open J1939 J1939.Gen J1939.Dll22

/-- J1939-22, EVERY EXIT OF AN ORIGINATOR SESSION RETURNS ITS NUMBER: whenever the background pass deletes a send
    record — timeout while waiting for CTS, timeout or arrival of the end-of-message acknowledgement, peer abort
    (FINISHED, repair of D22), end of a broadcast — it returns exactly that record's session number to the pool of its
    kind; a record that stays returns nothing.  With `c02_accept_takes_one` (an accepted message takes one number) and
    `c02_notify_keeps_pools` (no received frame touches a pool) this is the conservation of the 8 + 4 capacity -/
theorem c10_22_deleted_returns_number (cfg : Cfg) (now : Nat) (b : Snd) (hd0 : b.deadline ≠ 0) (hdue : b.deadline ≤ now) :
    (b.state = S_WAITING_CTS → (tickSndOne cfg now b).1 = none ∧ (tickSndOne cfg now b).2.2.2.2 = .rts b.session) ∧
    (b.state = S_WAITING_EOM_ACK → (tickSndOne cfg now b).1 = none ∧ (tickSndOne cfg now b).2.2.2.2 = .rts b.session) ∧
    (b.state = S_EOM_ACK_RECEIVED → (tickSndOne cfg now b).1 = none ∧ (tickSndOne cfg now b).2.2.2.2 = .rts b.session) ∧
    (b.state = S_FINISHED → (tickSndOne cfg now b).1 = none ∧ (tickSndOne cfg now b).2.2.2.2 = .rts b.session) ∧
    (b.state = S_SENDING_EOM_STATUS → (tickSndOne cfg now b).1 = none ∧ (tickSndOne cfg now b).2.2.2.2 = .bam b.session) := by
  have h0 : (b.deadline != 0) = true := by simpa using hd0
  have hf : ¬ b.deadline > now := by omega
  refine ⟨?_, ?_, ?_, ?_, ?_⟩ <;> intro h <;> unfold tickSndOne <;> simp only [h0, hf, if_true, if_false, h]
  · simp only [beq_self_eq_true, if_true]
    exact ⟨trivial, trivial⟩
  · have e1 : (S_WAITING_EOM_ACK == S_WAITING_CTS) = false := by decide
    have e2 : (S_WAITING_EOM_ACK == S_SENDING_RTS_CTS) = false := by decide
    simp only [e1, e2, Bool.false_eq_true, if_false, beq_self_eq_true, if_true]
    exact ⟨trivial, trivial⟩
  · have e1 : (S_EOM_ACK_RECEIVED == S_WAITING_CTS) = false := by decide
    have e2 : (S_EOM_ACK_RECEIVED == S_SENDING_RTS_CTS) = false := by decide
    have e3 : (S_EOM_ACK_RECEIVED == S_WAITING_EOM_ACK) = false := by decide
    simp only [e1, e2, e3, Bool.false_eq_true, if_false, beq_self_eq_true, if_true]
    exact ⟨trivial, trivial⟩
  · have e1 : (S_FINISHED == S_WAITING_CTS) = false := by decide
    have e2 : (S_FINISHED == S_SENDING_RTS_CTS) = false := by decide
    have e3 : (S_FINISHED == S_WAITING_EOM_ACK) = false := by decide
    have e4 : (S_FINISHED == S_EOM_ACK_RECEIVED) = false := by decide
    have e5 : (S_FINISHED == S_SENDING_BAM) = false := by decide
    have e6 : (S_FINISHED == S_SENDING_EOM_STATUS) = false := by decide
    simp only [e1, e2, e3, e4, e5, e6, Bool.false_eq_true, if_false, beq_self_eq_true, if_true]
    exact ⟨trivial, trivial⟩
  · have e1 : (S_SENDING_EOM_STATUS == S_WAITING_CTS) = false := by decide
    have e2 : (S_SENDING_EOM_STATUS == S_SENDING_RTS_CTS) = false := by decide
    have e3 : (S_SENDING_EOM_STATUS == S_WAITING_EOM_ACK) = false := by decide
    have e4 : (S_SENDING_EOM_STATUS == S_EOM_ACK_RECEIVED) = false := by decide
    have e5 : (S_SENDING_EOM_STATUS == S_SENDING_BAM) = false := by decide
    simp only [e1, e2, e3, e4, e5, Bool.false_eq_true, if_false, beq_self_eq_true, if_true]
    exact ⟨trivial, trivial⟩

end J1939.Props.C10
