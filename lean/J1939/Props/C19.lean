/-
  C19 — A second DM14 requester never disturbs or joins a running transaction.
  Model: Model/Dm14.lean (message level; tied to memory_access.py / Dm14Server.py by lock-step correspondence).

  The theorem is a NO-OP statement: while the server side of a node is bound to requester `a` (any of the shapes a
  running transaction goes through — `InTx`), handing it a DM14 from another source address, or from `a` with another
  pointer, leaves the node EXACTLY as it was, calls neither application callback, and emits at most DM15
  'operation failed' PDUs addressed to the sender of that DM14.  Because the state is equal, everything the running
  transaction does afterwards — its PDUs, its result, its completion — is the same as without the intruder, for one
  or any number of intruding requests (`c19_intruders_noop`).
-/
import J1939.Model.Dm14
import J1939.Lemmas.Tactics
import J1939.Props.C17
namespace J1939.Props.C19
open J1939 J1939.Gen J1939.Dm14

/-- the server side of node `n` is inside a transaction with requester `a` -/
structure InTx (a : Nat) (n : Node) : Prop where
  sa : n.s.sa = some a
  notBusy : n.s.busy = false
  notIdle : n.s.state ≠ .idle
  started : n.f = .requestStarted → n.s.state = .waitKey
  short : n.subs.length < 64
  len8 : n.s.length = 8          -- the DM14 that opened the transaction had the 8 bytes J1939-73 prescribes

/-- the intruding request: a DM14 that is not the running requester's request for the running pointer -/
def Intrudes (a : Nat) (n : Node) (p : Pdu) : Prop :=
  p.pgn = PGN_DM14 ∧ 8 ≤ p.data.length ∧
  (p.sa ≠ a ∨ ∃ ad, n.s.address = some ad ∧ ad ≠ Py.slice p.data 2 (n.s.length - 2))

/-- the only thing the server may say to an intruder: DM15, status 'operation failed', to the intruder's address -/
def BusyAnswer (p : Pdu) (o : Out) : Prop :=
  ∃ data, o = .tx PGN_DM15 (p.sa &&& 0xFF) 6 data ∧ (Py.idx data 1 >>> 1) &&& 7 = ST_OPER_FAILED

theorem dm15_error_form (s : Server) (seedIn direct status count sa error edcp : Nat) :
    sDm15 s seedIn 8 direct status .sendError count (some sa) error edcp =
      (s, [.tx PGN_DM15 (sa &&& 0xFF) 6 [0, (direct <<< 4) + (ST_OPER_FAILED <<< 1) + 1, error &&& 0xFF, (error >>> 8) &&& 0xFF,
                                        error >>> 16, edcp, 0xFF, 0xFF]], none) := by
  rfl

theorem status_of_hdr (direct : Nat) (hd : direct < 16) :
    (((direct <<< 4) + (ST_OPER_FAILED <<< 1) + 1) >>> 1) &&& 7 = ST_OPER_FAILED := by
  simp only [ST_OPER_FAILED, Nat.shiftLeft_eq, Nat.shiftRight_eq_div_pow]
  have : (direct * 2 ^ 4 + 5 * 2 ^ 1 + 1) / 2 ^ 1 = direct * 8 + 5 := by omega
  rw [this]
  have : (direct * 8 + 5) &&& 7 = (direct * 8 + 5) % 8 := Nat.and_two_pow_sub_one_eq_mod _ 3
  rw [this]; omega

/-- result of a handler that saw an intruding request: same node, no exception, only busy answers -/
def Quiet (n : Node) (p : Pdu) (r : Res) : Prop :=
  r.n = n ∧ r.err = none ∧ ∀ o ∈ r.outs, BusyAnswer p o

theorem node_busy_eta (n : Node) (h : n.s.busy = false) : { n with s := { n.s with busy := false } } = n := by
  cases n with | mk subs q s f ss hp => cases s; simp_all

/-- the server's DM14 handler rejects the intruding request and stays as it is (`error` may be any pending code) -/
theorem sParse_intruder (a : Nat) (n : Node) (seedIn : Nat) (p : Pdu) (hin : InTx a n) (hp : Intrudes a n p)
    (hb : Py.idx p.data 1 < 256) : Quiet n p (sParseDm14 n seedIn p) := by
  obtain ⟨hpgn, hlen, hwho⟩ := hp
  have hl : ¬ p.data.length < 8 := by omega
  have hrej : sRejects n.s p = true := by
    unfold sRejects
    rcases hwho with h | ⟨ad, h1, h2⟩
    · simp [hin.sa, h]
    · simp [h1, h2]
  unfold sParseDm14
  simp only [hpgn, bne_self_eq_false, Bool.false_eq_true, if_false, hl, hrej, if_true, hin.len8, dm15_error_form]
  refine ⟨?_, rfl, ?_⟩
  · have h1 := hin.notBusy
    have h2 := hin.len8
    cases n with | mk subs q s f ss hp => cases s; simp_all
  intro o ho
  simp only [List.mem_singleton] at ho
  subst ho
  refine ⟨_, rfl, ?_⟩
  show ((Py.idx p.data 1 >>> 4 <<< 4 + ST_OPER_FAILED <<< 1 + 1) >>> 1) &&& 7 = ST_OPER_FAILED
  exact status_of_hdr _ (by
    have : Py.idx p.data 1 >>> 4 = Py.idx p.data 1 / 16 := by simp [Nat.shiftRight_eq_div_pow]
    rw [this]; omega)

/-- the same with the busy flag raised by the facade (it is lowered again by the handler) -/
theorem sParse_intruder_busy (a : Nat) (n : Node) (seedIn : Nat) (p : Pdu) (hin : InTx a n) (hp : Intrudes a n p)
    (hb : Py.idx p.data 1 < 256) :
    Quiet n p (sParseDm14 { n with s := { n.s with busy := true } } seedIn p) := by
  obtain ⟨hpgn, hlen, _⟩ := hp
  have hl : ¬ p.data.length < 8 := by omega
  unfold sParseDm14
  simp only [hpgn, bne_self_eq_false, Bool.false_eq_true, if_false, hl]
  rw [if_pos (by simp [sRejects])]
  simp only [hin.len8, dm15_error_form]
  refine ⟨?_, rfl, ?_⟩
  · have h1 := hin.notBusy
    have h2 := hin.len8
    cases n with | mk subs q s f ss hp => cases s; simp_all
  intro o ho
  simp only [List.mem_singleton] at ho
  subst ho
  refine ⟨_, rfl, ?_⟩
  show ((Py.idx p.data 1 >>> 4 <<< 4 + ST_OPER_FAILED <<< 1 + 1) >>> 1) &&& 7 = ST_OPER_FAILED
  exact status_of_hdr _ (by
    have : Py.idx p.data 1 >>> 4 = Py.idx p.data 1 / 16 := by simp [Nat.shiftRight_eq_div_pow]
    rw [this]; omega)

theorem quiet_noop (n : Node) (p : Pdu) : Quiet n p { n := n } := ⟨rfl, rfl, by intro o ho; cases ho⟩

/-- the facade: in whatever state it is, the intruding request is not started, not verified, not handed to the application -/
theorem fListen_intruder (env : Env) (a : Nat) (n : Node) (seedIn : Nat) (accept : Bool) (p : Pdu) (hin : InTx a n)
    (hp : Intrudes a n p) (hb : Py.idx p.data 1 < 256) : Quiet n p (fListen env n seedIn accept p) := by
  have hpgn := hp.1
  unfold fListen
  simp only [hpgn, bne_self_eq_false, Bool.false_eq_true, if_false]
  cases hf : n.f with
  | idle =>
    have : (n.s.state != SState.idle) = true := by simpa using hin.notIdle
    simp only [this, if_true]
    exact quiet_noop n p
  | requestStarted =>
    obtain ⟨h1, h2, h3⟩ := sParse_intruder a n seedIn p hin hp hb
    have hst : n.s.state = .waitKey := hin.started hf
    simp only [h2]
    have : ((sParseDm14 n seedIn p).n.s.state == SState.sendProceed) = false := by rw [h1, hst]; rfl
    simp only [this, Bool.false_eq_true, if_false]
    exact ⟨h1, h2, h3⟩
  | waitQuery =>
    obtain ⟨h1, h2, h3⟩ := sParse_intruder_busy a n seedIn p hin hp hb
    rw [hf] at h1 h2 h3
    dsimp only
    refine ⟨?_, h2, h3⟩
    simp only [h1]
    exact node_busy_eta n hin.notBusy
  | waitResponse => dsimp only; exact quiet_noop n p

/-- every handler registered on the node -/
theorem runCb_intruder (env : Env) (a : Nat) (n : Node) (seedIn : Nat) (accept : Bool) (p : Pdu) (hin : InTx a n)
    (hp : Intrudes a n p) (hb : Py.idx p.data 1 < 256) (c : Cb) : Quiet n p (runCb env n seedIn accept p c) := by
  have hpgn := hp.1
  cases c with
  | listen => exact fListen_intruder env a n seedIn accept p hin hp hb
  | srv14 => exact sParse_intruder a n seedIn p hin hp hb
  | srv16 =>
    have : (p.pgn != PGN_DM16) = true := by rw [hpgn]; decide
    simp only [runCb, sParseDm16, this, Bool.true_or, if_true]; exact quiet_noop n p
  | q15 =>
    have : (p.pgn != PGN_DM15) = true := by rw [hpgn]; decide
    simp only [runCb, qParseDm15, this, Bool.true_or, if_true]; exact quiet_noop n p
  | q16 =>
    have : (p.pgn != PGN_DM16) = true := by rw [hpgn]; decide
    simp only [runCb, qParseDm16, this, Bool.true_or, if_true]; exact quiet_noop n p
  | app k => exact quiet_noop n p

theorem notifyLoop_intruder (env : Env) (a : Nat) (n : Node) (seedIn : Nat) (accept : Bool) (p : Pdu) (hin : InTx a n)
    (hp : Intrudes a n p) (hb : Py.idx p.data 1 < 256) (fuel i : Nat) (o : List Out) (hf : n.subs.length < fuel + i) (hi : i ≤ n.subs.length)
    (ho : ∀ x ∈ o, BusyAnswer p x) : Quiet n p (notifyLoop env seedIn accept p fuel i n o) := by
  induction fuel generalizing i o with
  | zero => omega      -- cannot happen: the list is shorter than the fuel
  | succ fuel ih =>
    unfold notifyLoop
    cases hc : n.subs[i]? with
    | none => exact ⟨rfl, rfl, ho⟩
    | some c =>
      obtain ⟨h1, h2, h3⟩ := runCb_intruder env a n seedIn accept p hin hp hb c
      simp only [h2, h1]
      have hlt : i < n.subs.length := by
        rcases Nat.lt_or_ge i n.subs.length with h | h
        · exact h
        · simp [List.getElem?_eq_none h] at hc
      exact ih (i + 1) _ (by omega) (by omega) (by
        intro x hx
        rcases List.mem_append.mp hx with h | h
        · exact ho x h
        · exact h3 x h)

/-- C19, ONE INTRUDER: handing the intruding DM14 to a node whose server is bound to requester `a` — at any point of
    the transaction, in any facade state, with any handlers registered — changes NOTHING, runs neither application
    callback, raises nothing, and emits only DM15 'operation failed' PDUs addressed to the intruder -/
theorem c19_intruder_noop (env : Env) (a : Nat) (n : Node) (seedIn : Nat) (accept : Bool) (p : Pdu) (hin : InTx a n)
    (hp : Intrudes a n p) (hb : Py.idx p.data 1 < 256) :
    (deliver env n seedIn accept p).n = n ∧ (deliver env n seedIn accept p).err = none ∧
    (∀ o ∈ (deliver env n seedIn accept p).outs, BusyAnswer p o) ∧
    (∀ o ∈ (deliver env n seedIn accept p).outs, o ≠ .notify ∧ ∀ c ad pt l k ky sa lv sd, o ≠ .proceed c ad pt l k ky sa lv sd) := by
  have h := notifyLoop_intruder env a n seedIn accept p hin hp hb 64 0 [] (by have := hin.short; omega) (by omega) (by intro x hx; cases hx)
  refine ⟨h.1, h.2.1, h.2.2, ?_⟩
  intro o ho
  obtain ⟨d, hd, _⟩ := h.2.2 o ho
  subst hd
  exact ⟨(by intro h; cases h), (by intro c ad pt l k ky sa lv sd h; cases h)⟩

/-- C19, ANY NUMBER OF INTRUDERS, NON-DISTURBANCE: after any sequence of intruding requests the node is still exactly
    the node it was — so whatever the running transaction does next is what it would have done without them -/
theorem c19_intruders_noop (env : Env) (a : Nat) (n : Node) (hin : InTx a n) (ps : List (Pdu × Nat × Bool))
    (hps : ∀ x ∈ ps, Intrudes a n x.1 ∧ Py.idx x.1.data 1 < 256) :
    ps.foldl (fun m x => (deliver env m x.2.1 x.2.2 x.1).n) n = n := by
  induction ps with
  | nil => rfl
  | cons x xs ih =>
    simp only [List.foldl_cons]
    obtain ⟨h1, h2⟩ := hps x (by simp)
    rw [(c19_intruder_noop env a n x.2.1 x.2.2 x.1 hin h1 h2).1]
    exact ih (fun y hy => hps y (by simp [hy]))

/-- nothing listens for DM14 (the phases between the request and the application's answer in a transaction without
    seed/key): the intruding request is not even looked at -/
theorem c19_unsubscribed_silent (env : Env) (n : Node) (seedIn : Nat) (accept : Bool) (p : Pdu)
    (h : n.subs = []) : deliver env n seedIn accept p = { n := n, outs := [], err := none } := by
  simp [deliver, notifyLoop, h]

/-- NON-VACUITY: the shapes a served request goes through satisfy `InTx` — after the opening DM14 of a request without
    seed/key (application consulted, nothing subscribed) and with seed/key (waiting for the key) -/
example : InTx 0x21 (deliver ⟨id, id⟩ { hasProceed := true } 0 true ⟨PGN_DM14, 0x21, [1, 0x13, 3, 0, 0, 0x92, 7, 0]⟩).n :=
  ⟨by decide, by decide, by decide, by decide, by decide, by decide⟩
example : InTx 0x21 (deliver ⟨id, id⟩ { seedSecurity := true, s := { hasKey := true } } 0x1234 true
    ⟨PGN_DM14, 0x21, [1, 0x13, 3, 0, 0, 0x92, 7, 0]⟩).n :=
  ⟨by decide, by decide, by decide, by decide, by decide, by decide⟩
example : Intrudes 0x21 (deliver ⟨id, id⟩ { hasProceed := true } 0 true ⟨PGN_DM14, 0x21, [1, 0x13, 3, 0, 0, 0x92, 7, 0]⟩).n
    ⟨PGN_DM14, 0x22, [1, 0x13, 3, 0, 0, 0x92, 7, 0]⟩ := ⟨rfl, by decide, Or.inl (by decide)⟩

/-- EVERY SERVER-SIDE STATE OF A TRANSACTION IS `InTx`: the states the whole-transaction theorems of C17 go through —
    after the opening DM14 (application consulted), while a multi-packet DM16 is on its way, while the written data
    is awaited, and while the closing DM14 is awaited — all satisfy the hypothesis of `c19_intruder_noop`; so an
    intruding DM14 at ANY point between the opening and the closing DM14 of those transactions is a no-op -/
theorem c19_intx_after_open (s0 : Node) (hcl : C17.Clean s0) (cl count direct cmd address level : Nat) :
    InTx cl { s0 with subs := [], f := .waitResponse,
                      s := { s0.s with sa := some cl, state := .sendProceed, status := ST_PROCEED, length := 8,
                                       address := some (Py.toBytesLE 4 address), direct := direct, command := cmd,
                                       pointerType := direct % 2, objectCount := count, accessLevel := level,
                                       data := C17.openDm14 count direct cmd address level } } :=
  ⟨rfl, hcl.busy, by simp, by simp, by simp, rfl⟩

theorem c19_intx_closing (s : Node) (cl : Nat) (h : C17.Closing s cl) : InTx cl s := by
  obtain ⟨h1, h2, h3, h4, h5, h6, h7⟩ := h
  refine ⟨h4, h6, by rw [h3]; simp, by rw [h1]; simp, ?_, h7⟩
  rcases h2 with h2 | h2 <;> rw [h2] <;> simp

theorem c19_intx_read_long (s : Node) (cl : Nat) (hf : s.f = .idle) (hsubs : s.subs = [.srv16, .listen]) (hst : s.s.state = .sendProceed)
    (hsa : s.s.sa = some cl) (hb : s.s.busy = false) (hl : s.s.length = 8) : InTx cl s :=
  ⟨hsa, hb, by rw [hst]; simp, by rw [hf]; simp, by rw [hsubs]; simp, hl⟩

theorem c19_intx_write_wait (s : Node) (cl : Nat) (hf : s.f = .idle) (hsubs : s.subs = [.srv16]) (hst : s.s.state = .waitDm16)
    (hsa : s.s.sa = some cl) (hb : s.s.busy = false) (hl : s.s.length = 8) : InTx cl s :=
  ⟨hsa, hb, by rw [hst]; simp, by rw [hf]; simp, by rw [hsubs]; simp, hl⟩

end J1939.Props.C19
