/-
  C16 — Diagnostic trouble codes and lamp states arrive exactly as sent (DM1, DTC, DM22).
  The per-code arithmetic, lamp extraction, lamp tables and the DM22 builder are the definitions regenerated from
  diagnostic_messages.py; list handling and length checks are Model/Dm1.lean (tied by correspondence).
-/
import J1939.Lemmas.Dm1
import J1939.Lemmas.EcuPass
namespace J1939.Props.C16
open J1939 J1939.Gen J1939.Dm1 J1939.Lemmas J1939.Bits

/-- pack → unpack is the identity on every in-range (SPN 19 bit, FMI 5 bit, OC 7 bit) trouble code, conversion mode 0 -/
theorem c16_dtc_roundtrip (d : Dtc) (h : Dtc.InRange d) :
    (let x := DTC.ofDtc (DTC.ofFields d.spn d.fmi d.oc).dtc; ({ spn := x.spn, fmi := x.fmi, oc := x.oc } : Dtc)) = d ∧
    (DTC.ofDtc (DTC.ofFields d.spn d.fmi d.oc).dtc).cm = 0 := by
  refine ⟨unpack_pack d h, ?_⟩
  obtain ⟨h1, h2, h3⟩ := h
  rw [dtc_unpack_eq]; exact (dtc_pack_digits d.spn d.fmi d.oc h1 h2 h3).2.2.2.2

/-- the four bytes on the wire are the SAE J1939-73 layout: SPN bits 0..7 | 8..15 | SPN bits 16..18 above the FMI | OC -/
theorem c16_dtc_layout (d : Dtc) (h : Dtc.InRange d) : dtcBytes d = Ref.dtcBytes d.spn d.fmi d.oc := by
  obtain ⟨h1, h2, h3⟩ := h
  obtain ⟨d0, d1, d2, d3, _⟩ := dtc_pack_digits d.spn d.fmi d.oc h1 h2 h3
  simp only [dtcBytes, dm1_bytes_arith, Ref.dtcBytes, d0, d1, d2, d3]

/-- all 5^4 lamp state combinations survive build → parse, whatever follows the two lamp bytes -/
theorem c16_lamps : ∀ a < 5, ∀ b < 5, ∀ c < 5, ∀ e < 5,
    let l := lampData [a, b, c, e]
    DtcLamp.get_status (Py.idx l 0 &&& 3) (Py.idx l 1 &&& 3) = a ∧
    DtcLamp.get_status ((Py.idx l 0 >>> 2) &&& 3) ((Py.idx l 1 >>> 2) &&& 3) = b ∧
    DtcLamp.get_status ((Py.idx l 0 >>> 4) &&& 3) ((Py.idx l 1 >>> 4) &&& 3) = c ∧
    DtcLamp.get_status ((Py.idx l 0 >>> 6) &&& 3) ((Py.idx l 1 >>> 6) &&& 3) = e := by
  decide +kernel

/-- the lamp bit pairs sit at the J1939-73 positions: byte 1 = lamp status (mil 7-6, rsl 5-4, awl 3-2, pl 1-0),
    byte 2 = flash (same order) — checked on the whole table -/
theorem c16_lamp_positions : ∀ a < 5, ∀ b < 5, ∀ c < 5, ∀ e < 5,
    lampData [a, b, c, e] =
      [Py.idx Const.Lamp.lut_lamp a + 4 * Py.idx Const.Lamp.lut_lamp b + 16 * Py.idx Const.Lamp.lut_lamp c + 64 * Py.idx Const.Lamp.lut_lamp e,
       Py.idx Const.Lamp.lut_flash a + 4 * Py.idx Const.Lamp.lut_flash b + 16 * Py.idx Const.Lamp.lut_flash c + 64 * Py.idx Const.Lamp.lut_flash e] := by
  decide +kernel

/-- a built DM1 has length 2 + 4n: at least 6 and never the special length 8 -/
theorem c16_dm1_length (lamps : List Nat) (dtcs : List Dtc) (hne : dtcs ≠ []) :
    (build lamps dtcs).length = 2 + 4 * dtcs.length ∧ 6 ≤ (build lamps dtcs).length ∧ (build lamps dtcs).length ≠ 8 := by
  have : 1 ≤ dtcs.length := by cases dtcs with | nil => exact absurd rfl hne | cons _ _ => simp
  rw [build_length]; omega

/-- DM1 ROUND TRIP: for all lamp states and every non-empty list of in-range trouble codes — of any length —
    parsing the built payload returns exactly the lamp states and the list, in order -/
theorem c16_dm1_roundtrip (a b c e : Nat) (ha : a < 5) (hb : b < 5) (hc : c < 5) (he : e < 5)
    (dtcs : List Dtc) (hne : dtcs ≠ []) (hr : ∀ d ∈ dtcs, Dtc.InRange d) :
    parse (build [a, b, c, e] dtcs) = some ([a, b, c, e], dtcs) := by
  obtain ⟨hl, h6, h8⟩ := c16_dm1_length [a, b, c, e] dtcs hne
  unfold parse
  rw [if_neg (by omega)]
  have hmod : ((build [a, b, c, e] dtcs).length - 2) % 4 = 0 := by rw [hl]; omega
  rw [if_neg (by simp [hmod])]
  have hn : ((build [a, b, c, e] dtcs).length - 2) / 4 = dtcs.length := by rw [hl]; omega
  simp only [hn, Option.some.injEq, Prod.mk.injEq]
  have hlamp := c16_lamps a ha b hb c hc e he
  simp only at hlamp
  have i0 : Py.idx (build [a, b, c, e] dtcs) 0 = Py.idx (lampData [a, b, c, e]) 0 := idx_append_left _ _ _ (by rw [lampData_length]; decide)
  have i1 : Py.idx (build [a, b, c, e] dtcs) 1 = Py.idx (lampData [a, b, c, e]) 1 := idx_append_left _ _ _ (by rw [lampData_length]; decide)
  refine ⟨?_, ?_⟩
  · simp only [Gen.Dm1.parse_lamp_pl, Gen.Dm1.parse_lamp_awl, Gen.Dm1.parse_lamp_rsl, Gen.Dm1.parse_lamp_mil, i0, i1,
      hlamp.1, hlamp.2.1, hlamp.2.2.1, hlamp.2.2.2]
  · have := parse_list (lampData [a, b, c, e]) rfl [] dtcs hr
    simpa [build] using this

/-- what goes to the transport: PGN 0xFECA as PF/PS, priority 6 for a single frame and 7 when a transport
    protocol is needed (J1939-21 requirement) -/
theorem c16_dm1_send (lamps : List Nat) (dtcs : List Dtc) :
    let r := send 65226 lamps dtcs
    r.dp = 0 ∧ r.pf = 254 ∧ r.ps = 202 ∧ r.data = build lamps dtcs ∧ (r.prio = if 2 + 4 * dtcs.length > 8 then 7 else 6) := by
  simp only [send, build_length]
  refine ⟨?_, ?_, ?_, ?_, ?_⟩ <;> first | trivial | decide

/-- DM22 individual clear request: control byte first, bytes 2..5 0xFF, SPN/FMI at the positions of a DTC's first three bytes -/
theorem c16_dm22_layout (pgn ctrl dest fmi spn : Nat) (hs : spn < 524288) (hf : fmi < 32) :
    (Dm22.send_request pgn ctrl dest fmi spn).data = [ctrl, 255, 255, 255, 255] ++ (Ref.dtcBytes spn fmi 0).take 3 := by
  simp only [Dm22.send_request, Py.set, and_255, and_31, and_224, shr_8, shr_11, Ref.dtcBytes]
  have h1 : spn / 2048 / 32 % 8 = spn / 65536 % 8 := by omega
  have h2 : spn / 2048 / 32 % 8 * 32 ||| fmi % 32 = spn / 65536 % 8 * 32 + fmi % 32 := by
    rw [h1]; have := mul_or (spn / 65536 % 8) (fmi % 32) 5 (by simp only [Nat.reducePow]; omega); simpa using this
  simp [List.replicate, h2]

theorem c16_dm22_addressing (pgn ctrl dest fmi spn : Nat) :
    let r := Dm22.send_request pgn ctrl dest fmi spn
    r.dp = 0 ∧ r.pf = pgn / 256 % 256 ∧ r.ps = dest % 256 ∧ r.prio = 6 := by
  simp only [Dm22.send_request, and_255, shr_8]; refine ⟨?_, ?_, ?_, ?_⟩ <;> trivial

/-- CYCLE: start_send registers one periodic timer with the Dm1 object's `_send` as callback; after stop_send no
    such timer remains and `_send` is not called again (timer model of C12) -/
theorem c16_stop_send (c : Ecu.Core) (sendCb : Nat) (now clk w : Nat)
    (hnoadd : ∀ b ∈ c.cbs, ∀ d ck, Ecu.TOp.add d sendCb ck ∉ b.ops) :
    let c' := c.removeTimer sendCb
    (∀ t ∈ c'.timers, t.cb ≠ sendCb) ∧ (∀ ev, Ecu.Obs.call ev ∈ (c'.pass now clk w).2.2.2 → ev.cb ≠ sendCb) := by
  have h1 : ∀ t ∈ (c.removeTimer sendCb).timers, t.cb ≠ sendCb := by
    intro t ht; rw [Ecu.removeTimer_timers] at ht; simpa using (List.mem_filter.mp ht).2
  have hcbs : (c.removeTimer sendCb).cbs = c.cbs := rfl
  have := Ecu.timerLoop_forall (fun t => t.cb ≠ sendCb) now (fun t d ht => ht) ((c.removeTimer sendCb).timers.map (·.uid))
    (c.removeTimer sendCb) clk w []
    (by intro b hb d cb' ck hm clk' uid he; simp only at he; subst he; rw [hcbs] at hb; exact hnoadd b hb d ck hm)
    h1 (by intro ev hm; cases hm)
  exact ⟨h1, by rw [Ecu.pass_obs]; exact this.2⟩

/-! non-vacuity -/
example : Dtc.InRange { spn := 0x7FFFF, fmi := 31, oc := 127 } := by unfold Dtc.InRange; decide
example : parse (build [1, 0, 3, 4] [{ spn := 0x7FFFF, fmi := 31, oc := 127 }, { spn := 0, fmi := 0, oc := 0 }])
    = some ([1, 0, 3, 4], [{ spn := 0x7FFFF, fmi := 31, oc := 127 }, { spn := 0, fmi := 0, oc := 0 }]) := by decide

end J1939.Props.C16
