/-
  C17 — DM14 memory access returns and stores exactly the addressed data.
  Model: Model/Dm14.lean (message level; tied to memory_access.py / Dm14Query.py / Dm14Server.py by lock-step
  correspondence).  Proved for the code as repaired by D13, D14, D15, D16, D21.
-/
import J1939.Model.Dm14
import J1939.Lemmas.Tactics
namespace J1939.Props.C17
open J1939 J1939.Gen J1939.Dm14

-- ------------------------------------------------------------------------------------------------ value <-> bytes
theorem toBytesLE_length (n x : Nat) : (Py.toBytesLE n x).length = n := by
  induction n generalizing x with
  | zero => rfl
  | succ n ih => simp [Py.toBytesLE, ih]

theorem fromBytesLE_toBytesLE (n x : Nat) (h : x < 256 ^ n) : Py.fromBytesLE (Py.toBytesLE n x) = x := by
  induction n generalizing x with
  | zero => simp at h; simp [Py.toBytesLE, Py.fromBytesLE, h]
  | succ n ih =>
    simp only [Py.toBytesLE, Py.fromBytesLE]
    have : x / 256 < 256 ^ n := by
      rw [Nat.pow_succ] at h
      exact Nat.div_lt_of_lt_mul (by omega)
    rw [ih _ this]; omega

theorem toBytesLE_lt (n x : Nat) : ∀ b ∈ Py.toBytesLE n x, b < 256 := by
  induction n generalizing x with
  | zero => intro b hb; cases hb
  | succ n ih =>
    intro b hb
    simp only [Py.toBytesLE, List.mem_cons] at hb
    rcases hb with rfl | hb
    · omega
    · exact ih _ b hb

/-- the bytes `_values_to_bytes` produces for a list of values of `size` bytes each -/
def valuesToBytes (size : Nat) (values : List Nat) : List Nat := (values.map (Py.toBytesLE size)).flatten

theorem valuesToBytes_length (size : Nat) (values : List Nat) : (valuesToBytes size values).length = values.length * size := by
  induction values with
  | nil => simp [valuesToBytes]
  | cons v vs ih =>
    simp only [valuesToBytes, List.map_cons, List.flatten_cons, List.length_append, toBytesLE_length, List.length_cons] at ih ⊢
    rw [ih, Nat.succ_mul]; omega

theorem chunkValues_unsigned (size : Nat) (values : List Nat) (rest : List Nat) (hv : ∀ v ∈ values, v < 256 ^ size) :
    chunkValues size false values.length (valuesToBytes size values ++ rest) = values.map (fun (v : Nat) => (v : Int)) := by
  induction values with
  | nil => rfl
  | cons v vs ih =>
    simp only [valuesToBytes, List.map_cons, List.flatten_cons, List.length_cons, chunkValues, List.append_assoc]
    have hl := toBytesLE_length size v
    rw [List.take_left' hl, List.drop_left' hl, fromBytesLE_toBytesLE size v (hv v (by simp))]
    simp only [Bool.false_and, Bool.false_eq_true, if_false, List.cons.injEq, true_and]
    exact ih (fun w hw => hv w (by simp [hw]))

/-- VALUE ROUND TRIP (unsigned): for every object size > 0 and every list of values in range, reading back the bytes
    a write produces gives the values — count, order and content (this is what D13 broke for count > 1) -/
theorem c17_values_bytes (size : Nat) (hs : 0 < size) (values : List Nat) (hv : ∀ v ∈ values, v < 256 ^ size) :
    bytesToValues size false (valuesToBytes size values) = values.map (fun (v : Nat) => (v : Int)) := by
  unfold bytesToValues
  rw [valuesToBytes_length, Nat.mul_div_cancel _ hs]
  have := chunkValues_unsigned size values [] hv
  simpa using this

theorem chunkValues_signed (size : Nat) (values : List Nat) (rest : List Nat) (hv : ∀ v ∈ values, v < 256 ^ size) :
    chunkValues size true values.length (valuesToBytes size values ++ rest)
      = values.map (fun (v : Nat) => if v ≥ 2 ^ (8 * size - 1) then (v : Int) - 2 ^ (8 * size) else (v : Int)) := by
  induction values with
  | nil => rfl
  | cons v vs ih =>
    simp only [valuesToBytes, List.map_cons, List.flatten_cons, List.length_cons, chunkValues, List.append_assoc]
    have hl := toBytesLE_length size v
    rw [List.take_left' hl, List.drop_left' hl, fromBytesLE_toBytesLE size v (hv v (by simp))]
    simp only [Bool.true_and, decide_eq_true_eq, List.cons.injEq, true_and]
    exact ih (fun w hw => hv w (by simp [hw]))

/-- VALUE READING (signed): each object is the two's-complement reading of its `size` bytes -/
theorem c17_values_signed (size : Nat) (hs : 0 < size) (values : List Nat) (hv : ∀ v ∈ values, v < 256 ^ size) :
    bytesToValues size true (valuesToBytes size values)
      = values.map (fun (v : Nat) => if v ≥ 2 ^ (8 * size - 1) then (v : Int) - 2 ^ (8 * size) else (v : Int)) := by
  unfold bytesToValues
  rw [valuesToBytes_length, Nat.mul_div_cancel _ hs]
  have := chunkValues_signed size values [] hv
  simpa using this

-- ------------------------------------------------------------------------------------------------ configuration
/-- what `set_seed_key_algorithm` / `set_proceed` / the constructor fix: never touched by a transaction -/
def cfg (n : Node) : Bool × Bool × Bool × Bool × Nat := (n.seedSecurity, n.hasProceed, n.s.hasKey, n.q.hasKey, n.q.userLevel)

theorem cfg_sDm15 (s : Server) (a b c d : Nat) (st : SState) (e : Nat) (sa : Option Nat) (f g : Nat) :
    (sDm15 s a b c d st e sa f g).1.hasKey = s.hasKey := by
  unfold sDm15; cases st <;> cases sa <;> rfl

theorem cfg_sParseDm14 (n : Node) (seedIn : Nat) (p : Pdu) : cfg (sParseDm14 n seedIn p).n = cfg n := by
  unfold sParseDm14 cfg
  dsimp only
  repeat' split
  all_goals simp [unsub, cfg_sDm15]

theorem cfg_sParseDm16 (n : Node) (seedIn : Nat) (p : Pdu) : cfg (sParseDm16 n seedIn p).n = cfg n := by
  unfold sParseDm16 cfg
  dsimp only
  repeat' split
  all_goals simp [unsub, sub, cfg_sDm15]

theorem cfg_qParseDm15 (env : Env) (n : Node) (p : Pdu) : cfg (qParseDm15 env n p).n = cfg n := by
  unfold qParseDm15 qWaitForData cfg
  dsimp only
  repeat' split
  all_goals simp [unsub, sub]

theorem cfg_qParseDm16 (n : Node) (p : Pdu) : cfg (qParseDm16 n p).n = cfg n := by
  unfold qParseDm16 cfg
  dsimp only
  repeat' split
  all_goals simp [unsub, sub]

theorem cfg_sReset (n : Node) : cfg (sReset n) = cfg n := by simp [sReset, cfg, unsub]

theorem cfg_fRefuse (n : Node) (seedIn : Nat) (p : Pdu) (code : Nat) (fr : Bool) : cfg (fRefuse n seedIn p code fr).n = cfg n := by
  have h := cfg_sParseDm14 { n with s := { n.s with error := code, busy := true } } seedIn p
  unfold fRefuse
  dsimp only
  split
  · exact h
  · cases fr <;> simp [cfg, sReset, unsub, sub] at h ⊢ <;> exact h

theorem cfg_fConsult (n : Node) (seedIn : Nat) (acc : Bool) (p : Pdu) (k sd : Nat) (fr : Bool) :
    cfg (fConsult n seedIn acc p k sd fr).n = cfg n := by
  unfold fConsult
  dsimp only
  repeat' split
  all_goals first | rfl | exact cfg_fRefuse _ _ _ _ _

theorem cfg_fListen (env : Env) (n : Node) (seedIn : Nat) (acc : Bool) (p : Pdu) : cfg (fListen env n seedIn acc p).n = cfg n := by
  unfold fListen
  split
  · rfl
  split
  · split
    · rfl
    · have h1 := cfg_sParseDm14 { n with f := .requestStarted } seedIn p
      dsimp only
      split
      · exact h1
      · split
        · rw [cfg_fConsult]; simpa [cfg, unsub] using h1
        · exact h1
  · have h1 := cfg_sParseDm14 n seedIn p
    dsimp only
    split
    · exact h1
    · split
      · split
        · split
          · rw [cfg_fConsult]; simpa [cfg] using h1
          · rw [cfg_fRefuse]; simpa [cfg] using h1
        · simpa [cfg] using h1
      · exact h1
  · have h1 := cfg_sParseDm14 { n with s := { n.s with busy := true } } seedIn p
    dsimp only
    simpa [cfg] using h1
  · rfl

theorem cfg_runCb (env : Env) (n : Node) (seedIn : Nat) (acc : Bool) (p : Pdu) (c : Cb) : cfg (runCb env n seedIn acc p c).n = cfg n := by
  cases c with
  | listen => exact cfg_fListen env n seedIn acc p
  | srv14 => exact cfg_sParseDm14 n seedIn p
  | srv16 => exact cfg_sParseDm16 n seedIn p
  | q15 => exact cfg_qParseDm15 env n p
  | q16 => exact cfg_qParseDm16 n p
  | app k => rfl

theorem cfg_notifyLoop (env : Env) (seedIn : Nat) (acc : Bool) (p : Pdu) (fuel i : Nat) (n : Node) (o : List Out) :
    cfg (notifyLoop env seedIn acc p fuel i n o).n = cfg n := by
  induction fuel generalizing i n o with
  | zero => rfl
  | succ fuel ih =>
    unfold notifyLoop
    split
    · rfl
    · dsimp only
      split
      · exact cfg_runCb env n seedIn acc p _
      · rw [ih]; exact cfg_runCb env n seedIn acc p _

/-- CONFIGURATION IS INVARIANT: no PDU, call or resumption changes the seed/key and proceed configuration or the user
    level of a node -/
theorem cfg_deliver (env : Env) (n : Node) (seedIn : Nat) (acc : Bool) (p : Pdu) : cfg (deliver env n seedIn acc p).n = cfg n :=
  cfg_notifyLoop env seedIn acc p 64 0 n []

theorem cfg_clientResume (n : Node) (t : Bool) : cfg (clientResume n t).1 = cfg n := by
  unfold clientResume
  dsimp only
  repeat' split
  all_goals simp [cfg, qEnd, unsub]

theorem cfg_readBegin (n : Node) (a b c d e : Nat) (f g : Bool) : cfg (readBegin n a b c d e f g).1 = cfg n := by
  unfold readBegin
  dsimp only
  repeat' split
  all_goals simp [cfg, sub]

theorem cfg_read (n : Node) (a b c d e : Nat) (f g : Bool) : cfg (Dm14.read n a b c d e f g).1 = cfg n := by
  unfold Dm14.read
  dsimp only
  split
  · rw [cfg_clientResume, cfg_readBegin]
  · exact cfg_readBegin n a b c d e f g

theorem cfg_writeBegin (n : Node) (a b c : Nat) (v : List Nat) (e : Nat) : cfg (writeBegin n a b c v e).1 = cfg n := by
  unfold writeBegin
  dsimp only
  repeat' split
  all_goals simp [cfg, sub]

theorem cfg_write (n : Node) (a b c : Nat) (v : List Nat) (e : Nat) : cfg (Dm14.write n a b c v e).1 = cfg n := by
  unfold Dm14.write
  dsimp only
  split
  · rw [cfg_clientResume, cfg_writeBegin]
  · exact cfg_writeBegin n a b c v e

theorem cfg_respondResume (n : Node) (t : Bool) : cfg (respondResume n t).1 = cfg n := by
  unfold respondResume
  repeat' split
  all_goals simp [cfg, sub]

theorem cfg_sDm16 (n : Node) : cfg (sDm16 n).n = cfg n := by
  unfold sDm16
  dsimp only
  repeat' split
  all_goals simp [cfg, sub]

theorem cfg_sWaitForData (n : Node) (seedIn : Nat) : cfg (sWaitForData n seedIn).n = cfg n := by
  unfold sWaitForData
  dsimp only
  have h16 := fun m => cfg_sDm16 m
  repeat' split
  all_goals first
    | (simp [cfg, sub, unsub, cfg_sDm15]; done)
    | (simp only [cfg] at h16 ⊢; simp [sub, unsub, cfg_sDm15, h16])

theorem cfg_respond (n : Node) (seedIn : Nat) (pr : Bool) (d : List Nat) (e x : Nat) : cfg (respond n seedIn pr d e x).1 = cfg n := by
  unfold respond
  dsimp only
  have hw := fun m => cfg_sWaitForData m seedIn
  repeat' split
  all_goals first
    | rfl
    | (rw [hw]; simp [cfg, unsub]; done)
    | (rw [cfg_respondResume, hw]; simp [cfg, unsub]; done)
    | (simp only [cfg] at hw ⊢; simp [sub, unsub, hw])

-- ------------------------------------------------------------------------------------------------ transactions
/-- nothing of a previous transaction is left on the node -/
structure Clean (n : Node) : Prop where
  f : n.f = .idle
  q : n.q.state = .idle
  s : n.s.state = .idle
  subs : n.subs = [.listen]
  qd : n.q.dataQ = []
  qe : n.q.excQ = []
  sd : n.s.dataQ = []
  sa : n.s.sa = none
  addr : n.s.address = none
  busy : n.s.busy = false
  len : n.s.length = 8

/-- the opening DM14 the client sends -/
def openDm14 (count direct cmd address level : Nat) : List Nat :=
  [count, (direct <<< 4) + (cmd <<< 1) + 1] ++ Py.toBytesLE 4 address ++ [level &&& 0xFF, level >>> 8]

theorem cmd_decode (count direct cmd address level : Nat) (hc : cmd < 8) (hd : direct < 16) :
    Dm14.s_command (openDm14 count direct cmd address level) = cmd := by
  simp only [Dm14.s_command, openDm14, Py.idx, List.cons_append, List.getD_cons_succ, List.getD_cons_zero, Nat.shiftLeft_eq,
    Nat.shiftRight_eq_div_pow]
  have : (direct * 2 ^ 4 + cmd * 2 ^ 1 + 1 + (16 - 1 % 16)) &&& 15 = (direct * 2 ^ 4 + cmd * 2 ^ 1 + 1 + (16 - 1 % 16)) % 16 :=
    Nat.and_two_pow_sub_one_eq_mod _ 4
  rw [this]; omega

theorem ptype_decode (count direct cmd address level : Nat) (hc : cmd < 8) :
    Dm14.s_pointer_type (openDm14 count direct cmd address level) = direct % 2 := by
  simp only [Dm14.s_pointer_type, openDm14, Py.idx, List.cons_append, List.getD_cons_succ, List.getD_cons_zero, Nat.shiftLeft_eq,
    Nat.shiftRight_eq_div_pow]
  have : ((direct * 2 ^ 4 + cmd * 2 ^ 1 + 1) / 2 ^ 4) &&& 1 = ((direct * 2 ^ 4 + cmd * 2 ^ 1 + 1) / 2 ^ 4) % 2 :=
    Nat.and_two_pow_sub_one_eq_mod _ 1
  rw [this]; omega

theorem open_slice (count direct cmd address level : Nat) :
    Py.slice (openDm14 count direct cmd address level) 2 6 = Py.toBytesLE 4 address := by
  simp [openDm14, Py.slice, Py.toBytesLE]

theorem open_direct (count direct cmd address level : Nat) (hc : cmd < 8) :
    Py.idx (openDm14 count direct cmd address level) 1 >>> 4 = direct := by
  simp only [openDm14, Py.idx, List.cons_append, List.getD_cons_succ, List.getD_cons_zero, Nat.shiftLeft_eq, Nat.shiftRight_eq_div_pow]
  omega

theorem open_count (count direct cmd address level : Nat) : Py.idx (openDm14 count direct cmd address level) 0 = count := rfl

theorem open_level (count direct cmd address level : Nat) (hl : level < 2 ^ 16) :
    Py.idx (openDm14 count direct cmd address level) 7 <<< 8 + Py.idx (openDm14 count direct cmd address level) 6 = level := by
  have h7 : Py.idx (openDm14 count direct cmd address level) 7 = level >>> 8 := by simp [openDm14, Py.idx, Py.toBytesLE]
  have h6 : Py.idx (openDm14 count direct cmd address level) 6 = level &&& 255 := by simp [openDm14, Py.idx, Py.toBytesLE]
  rw [h7, h6]
  have : level &&& 255 = level % 256 := Nat.and_two_pow_sub_one_eq_mod level 8
  rw [this]
  simp only [Nat.shiftLeft_eq, Nat.shiftRight_eq_div_pow]
  omega

theorem server_accepts (env : Env) (s0 : Node) (hcl : Clean s0) (hsec : s0.seedSecurity = false) (hp : s0.hasProceed = true)
    (seed cl count direct cmd address level : Nat) (hc : cmd < 8) (hd : direct < 16) (ha : address < 2 ^ 32) (hlv : level < 2 ^ 16)
    (hk : s0.s.hasKey = false) :
    deliver env s0 seed true ⟨PGN_DM14, cl, openDm14 count direct cmd address level⟩ =
      { n := { s0 with subs := [], f := .waitResponse,
                       s := { s0.s with sa := some cl, state := .sendProceed, status := ST_PROCEED, length := 8,
                                        address := some (Py.toBytesLE 4 address), direct := direct, command := cmd,
                                        pointerType := direct % 2, objectCount := count, accessLevel := level,
                                        data := openDm14 count direct cmd address level } },
        outs := [.proceed cmd address (direct % 2) 8 count 0xFFFF cl level 0, .notify], err := none } := by
  obtain ⟨h1, h2, h3, h4, h5, h6, h7, h8, h9, h10, h11⟩ := hcl
  have hcmd := cmd_decode count direct cmd address level hc hd
  have hpt := ptype_decode count direct cmd address level hc
  have hlen : (openDm14 count direct cmd address level).length = 8 := by simp [openDm14, toBytesLE_length]
  simp [deliver, notifyLoop, runCb, fListen, sParseDm14, sRejects, fConsult, unsub, h1, h3, h4, h8, h9, h10, h11, hsec, hp, hk, hlen,
    PGN_DM14, hcmd, hpt, open_slice, open_direct _ _ _ _ _ hc, open_count, open_level _ _ _ _ _ hlv, fromBytesLE_toBytesLE 4 address ha]

/-- the PDUs of a transaction -/
def proceedDm15 (direct count : Nat) : List Nat := [count, (direct <<< 4) + (ST_PROCEED <<< 1) + 1, 255, 255, 255, 255, 255, 255]
def opcDm15 (direct : Nat) : List Nat := [0, (direct <<< 4) + (CMD_OPER_COMPLETED <<< 1) + 1, 255, 255, 255, 255, 255, 255]
def seedDm15 (direct seed : Nat) : List Nat := [0, (direct <<< 4) + (ST_PROCEED <<< 1) + 1, 255, 255, 255, 255, seed &&& 255, seed >>> 8]
/-- DM16 as the server sends it: length byte (0xFF above 7 bytes), the data, 0xFF fill up to 8 bytes -/
def srvDm16 (d : List Nat) : List Nat := ((if d.length > 7 then 0xFF else d.length) :: d) ++ List.replicate (8 - d.length - 1) 0xFF
/-- the closing 'operation completed' DM14 -/
def closeDm14 (direct address : Nat) : List Nat := openDm14 1 direct CMD_OPER_COMPLETED address 0xFFFF

/-- the server node after it accepted a request and before the application answered -/
def Accepted (s1 : Node) (cl count direct cmd : Nat) : Prop :=
  s1.f = .waitResponse ∧ s1.subs.filter (· != Cb.listen) = [] ∧ s1.s.sa = some cl ∧ s1.s.state = .sendProceed ∧ s1.s.length = 8 ∧
  s1.s.direct = direct ∧ s1.s.command = cmd ∧ s1.s.objectCount = count ∧ s1.s.busy = false ∧ s1.s.dataQ = []

theorem accepted_of_server_accepts (s0 : Node) (hcl : Clean s0) (cl count direct cmd address level : Nat) :
    Accepted { s0 with subs := [], f := .waitResponse,
                       s := { s0.s with sa := some cl, state := .sendProceed, status := ST_PROCEED, length := 8,
                                        address := some (Py.toBytesLE 4 address), direct := direct, command := cmd,
                                        pointerType := direct % 2, objectCount := count, accessLevel := level,
                                        data := openDm14 count direct cmd address level } } cl count direct cmd := by
  simp [Accepted, hcl.busy, hcl.sd]

/-- READ, server side, up to 7 bytes: the application's answer goes out as proceed, DM16 with exactly its bytes, and
    operation-complete; the server then waits for the closing DM14 -/
theorem server_read_short (s1 : Node) (cl count direct seed : Nat) (h : Accepted s1 cl count direct CMD_READ) (d : List Nat)
    (hd : d.length ≤ 7) (e x : Nat) :
    (respond s1 seed true d e x).2 =
        ([.tx PGN_DM15 (cl &&& 0xFF) 6 (proceedDm15 direct count), .tx PGN_DM16 (cl &&& 0xFF) 7 (srvDm16 d),
          .tx PGN_DM15 (cl &&& 0xFF) 6 (opcDm15 direct)], .none) ∧
      (respond s1 seed true d e x).1.f = .idle ∧ (respond s1 seed true d e x).1.subs = [.srv14, .listen] ∧
      (respond s1 seed true d e x).1.s.state = .waitOperComplete ∧ (respond s1 seed true d e x).1.s.sa = some cl ∧
      (respond s1 seed true d e x).1.s.dataQ = [] ∧ (respond s1 seed true d e x).1.s.busy = false ∧
      (respond s1 seed true d e x).1.s.length = 8 ∧ (respond s1 seed true d e x).1.q = s1.q ∧
      (respond s1 seed true d e x).1.s.address = s1.s.address ∧ (respond s1 seed true d e x).1.seedSecurity = s1.seedSecurity := by
  obtain ⟨h1, h2, h3, h4, h5, h6, h7, h8, h9, h10⟩ := h
  have hd' : ¬ d.length > 7 := by omega
  simp [respond, h1, sWaitForData, sub, unsub, h2, sDm15, h5, h6, h3, h7, CMD_READ, CMD_WRITE, sDm16, hd, hd', h8, proceedDm15,
      opcDm15, srvDm16, Py.set, ST_PROCEED, CMD_OPER_COMPLETED, h9, h10]

/-- the server node while it waits for the closing DM14 -/
def Closing (s2 : Node) (cl : Nat) : Prop :=
  s2.f = .idle ∧ (s2.subs = [.srv14, .listen] ∨ s2.subs = [.listen, .srv14]) ∧ s2.s.state = .waitOperComplete ∧ s2.s.sa = some cl ∧
  s2.s.dataQ = [] ∧ s2.s.busy = false ∧ s2.s.length = 8

/-- READ, server side, 8..255 bytes: proceed and the multi-packet DM16 with exactly the bytes; nothing else until the
    transport reports the end-of-message acknowledgement -/
theorem server_read_long (s1 : Node) (cl count direct seed : Nat) (h : Accepted s1 cl count direct CMD_READ) (d : List Nat)
    (hd : 7 < d.length) (e x : Nat) :
    (respond s1 seed true d e x).2 =
        ([.tx PGN_DM15 (cl &&& 0xFF) 6 (proceedDm15 direct count), .tx PGN_DM16 (cl &&& 0xFF) 7 (0xFF :: d)], .none) ∧
      (respond s1 seed true d e x).1.f = .idle ∧ (respond s1 seed true d e x).1.subs = [.srv16, .listen] ∧
      (respond s1 seed true d e x).1.s.state = .sendProceed ∧ (respond s1 seed true d e x).1.s.sa = some cl ∧
      (respond s1 seed true d e x).1.s.dataQ = [] ∧ (respond s1 seed true d e x).1.s.busy = false ∧
      (respond s1 seed true d e x).1.s.length = 8 ∧ (respond s1 seed true d e x).1.s.direct = direct ∧
      (respond s1 seed true d e x).1.q = s1.q ∧ (respond s1 seed true d e x).1.s.address = s1.s.address := by
  obtain ⟨h1, h2, h3, h4, h5, h6, h7, h8, h9, h10⟩ := h
  have hd' : ¬ d.length ≤ 7 := by omega
  have hrep : 8 - d.length - 1 = 0 := by omega
  simp [respond, h1, sWaitForData, sub, unsub, h2, sDm15, h5, h6, h3, h7, CMD_READ, CMD_WRITE, sDm16, hd, hd', h8, proceedDm15,
      Py.set, ST_PROCEED, h9, h10, hrep]

/-- ... and when the acknowledgement of its DM16 is reported (any PDU content: the server looks at PGN and sender only)
    it sends operation-complete, queues NOTHING as written data (D15) and waits for the closing DM14 -/
theorem server_read_ack (env : Env) (s2 : Node) (cl direct seed : Nat) (acc : Bool) (ack : List Nat) (hack : 1 ≤ ack.length)
    (hf : s2.f = .idle) (hsubs : s2.subs = [.srv16, .listen]) (hst : s2.s.state = .sendProceed) (hsa : s2.s.sa = some cl)
    (hq : s2.s.dataQ = []) (hb : s2.s.busy = false) (hl : s2.s.length = 8) (hdir : s2.s.direct = direct) :
    (deliver env s2 seed acc ⟨PGN_DM16, cl, ack⟩).outs = [.tx PGN_DM15 (cl &&& 0xFF) 6 (opcDm15 direct)] ∧
    (deliver env s2 seed acc ⟨PGN_DM16, cl, ack⟩).err = none ∧ Closing (deliver env s2 seed acc ⟨PGN_DM16, cl, ack⟩).n cl ∧
    (deliver env s2 seed acc ⟨PGN_DM16, cl, ack⟩).n.q = s2.q ∧
    (deliver env s2 seed acc ⟨PGN_DM16, cl, ack⟩).n.s.address = s2.s.address := by
  have hack' : ¬ ack.length < 1 := by omega
  simp [deliver, notifyLoop, hsubs, runCb, fListen, sParseDm16, sParseDm14, PGN_DM16, PGN_DM14, hsa, hack', hst, sub, unsub, sDm15, hl,
    hdir, opcDm15, Py.set, CMD_OPER_COMPLETED, Closing, hf, hq, hb]

/-- WRITE, server side: proceed goes out and the application waits for the data -/
theorem server_write_begin (s1 : Node) (cl count direct seed : Nat) (h : Accepted s1 cl count direct CMD_WRITE) (d : List Nat) (e x : Nat) :
    (respond s1 seed true d e x).2 = ([.tx PGN_DM15 (cl &&& 0xFF) 6 (proceedDm15 direct count)], .blocked) ∧
      (respond s1 seed true d e x).1.f = .idle ∧ (respond s1 seed true d e x).1.subs = [.srv16] ∧
      (respond s1 seed true d e x).1.s.state = .waitDm16 ∧ (respond s1 seed true d e x).1.s.sa = some cl ∧
      (respond s1 seed true d e x).1.s.dataQ = [] ∧ (respond s1 seed true d e x).1.s.busy = false ∧
      (respond s1 seed true d e x).1.s.length = 8 ∧ (respond s1 seed true d e x).1.s.direct = direct ∧
      (respond s1 seed true d e x).1.q = s1.q ∧ (respond s1 seed true d e x).1.s.address = s1.s.address := by
  obtain ⟨h1, h2, h3, h4, h5, h6, h7, h8, h9, h10⟩ := h
  simp [respond, h1, sWaitForData, sub, unsub, h2, sDm15, h5, h6, h3, h7, CMD_READ, CMD_WRITE, h8, proceedDm15,
      Py.set, ST_PROCEED, h9, h10]

/-- the client's DM16 (write): length byte (0xFF above 7 bytes) and the bytes -/
def cliDm16 (bytes : List Nat) : List Nat := (if bytes.length > 7 then 0xFF else bytes.length) :: bytes

theorem cliDm16_payload (bytes : List Nat) (hb : bytes.length ≤ 255) :
    Py.slice (cliDm16 bytes) 1 (min (Py.idx (cliDm16 bytes) 0) ((cliDm16 bytes).length - 1) + 1) = bytes := by
  simp only [cliDm16, Py.idx, List.getD_cons_zero, List.length_cons, Nat.add_sub_cancel, Py.slice]
  have : min (if bytes.length > 7 then 255 else bytes.length) bytes.length = bytes.length := by split <;> omega
  rw [this]
  simp

/-- ... the written bytes arrive: exactly they are queued for the application, operation-complete goes out -/
theorem server_write_data (env : Env) (s2 : Node) (cl direct seed : Nat) (acc : Bool) (bytes : List Nat) (hbl : bytes.length ≤ 255)
    (hf : s2.f = .idle) (hsubs : s2.subs = [.srv16]) (hst : s2.s.state = .waitDm16) (hsa : s2.s.sa = some cl)
    (hq : s2.s.dataQ = []) (hb : s2.s.busy = false) (hl : s2.s.length = 8) (hdir : s2.s.direct = direct) :
    (deliver env s2 seed acc ⟨PGN_DM16, cl, cliDm16 bytes⟩).outs = [.tx PGN_DM15 (cl &&& 0xFF) 6 (opcDm15 direct)] ∧
    (deliver env s2 seed acc ⟨PGN_DM16, cl, cliDm16 bytes⟩).err = none ∧
    (respondResume (deliver env s2 seed acc ⟨PGN_DM16, cl, cliDm16 bytes⟩).n false).2 = .data bytes ∧
    Closing (respondResume (deliver env s2 seed acc ⟨PGN_DM16, cl, cliDm16 bytes⟩).n false).1 cl ∧
    (respondResume (deliver env s2 seed acc ⟨PGN_DM16, cl, cliDm16 bytes⟩).n false).1.q = s2.q ∧
    (respondResume (deliver env s2 seed acc ⟨PGN_DM16, cl, cliDm16 bytes⟩).n false).1.s.address = s2.s.address := by
  have hlen : ¬ (cliDm16 bytes).length < 1 := by simp [cliDm16]
  have hpay := cliDm16_payload bytes hbl
  simp [deliver, notifyLoop, hsubs, runCb, sParseDm16, PGN_DM16, hsa, hlen, hst, sub, unsub, sDm15, hl,
    hdir, opcDm15, Py.set, CMD_OPER_COMPLETED, Closing, hf, hq, hb, respondResume, hpay]

/-- CLOSING, server side: the closing DM14 of the running requester (whatever its bytes beyond the pointer it is
    checked against) returns the server to a clean state and is NOT taken for a new request by the facade -/
theorem server_closing (env : Env) (s2 : Node) (cl seed : Nat) (acc : Bool) (data : List Nat) (hc : Closing s2 cl) (hl : data.length = 8)
    (haddr : ∀ ad, s2.s.address = some ad → ad = Py.slice data 2 6) :
    (deliver env s2 seed acc ⟨PGN_DM14, cl, data⟩).outs = [] ∧ (deliver env s2 seed acc ⟨PGN_DM14, cl, data⟩).err = none ∧ (deliver env s2 seed acc ⟨PGN_DM14, cl, data⟩).n.f = .idle ∧ (deliver env s2 seed acc ⟨PGN_DM14, cl, data⟩).n.s.state = .idle ∧
    (deliver env s2 seed acc ⟨PGN_DM14, cl, data⟩).n.subs = [.listen] ∧ (deliver env s2 seed acc ⟨PGN_DM14, cl, data⟩).n.s.sa = none ∧ (deliver env s2 seed acc ⟨PGN_DM14, cl, data⟩).n.s.address = none ∧ (deliver env s2 seed acc ⟨PGN_DM14, cl, data⟩).n.s.dataQ = [] ∧
    (deliver env s2 seed acc ⟨PGN_DM14, cl, data⟩).n.s.busy = false ∧ (deliver env s2 seed acc ⟨PGN_DM14, cl, data⟩).n.s.length = 8 ∧ (deliver env s2 seed acc ⟨PGN_DM14, cl, data⟩).n.q = s2.q := by
  obtain ⟨h1, h2, h3, h4, h5, h6, h7⟩ := hc
  have hl' : ¬ data.length < 8 := by omega
  have hrej : sRejects s2.s ⟨PGN_DM14, cl, data⟩ = false := by
    unfold sRejects
    cases ha : s2.s.address with
    | none => simp [h4, h6]
    | some ad =>
      have := haddr ad ha
      subst this
      simp [h4, h6, h7]
  have hp : sParseDm14 s2 seed ⟨PGN_DM14, cl, data⟩ =
      { n := unsub { s2 with s := { s2.s with length := 8, direct := Py.idx data 1 >>> 4, state := .idle, sa := none, address := none } } .srv14 } := by
    simp [sParseDm14, hl', hrej, h3, hl]
  rcases h2 with h2 | h2
  · simp [deliver, notifyLoop, h2, runCb, hp, unsub, h1, h5, h6]
  · have hli : fListen env s2 seed acc ⟨PGN_DM14, cl, data⟩ = { n := s2 } := by
      simp [fListen, h1, h3]
    simp [deliver, notifyLoop, h2, runCb, hli, hp, unsub, h1, h5, h6]

-- ------------------------------------------------------------------------------------------------ client side
/-- what the client's `read` returns for the bytes `d` -/
def readResult (osize : Nat) (signed raw : Bool) (d : List Nat) : Ret :=
  .values (if d.isEmpty then [] else if raw then d.map (fun (x : Nat) => (x : Int)) else bytesToValues osize signed d)

/-- the client's side of a read, fed the server's three PDUs in order (`dm16` is the DM16 PDU as it arrives, single
    frame or reassembled) -/
def clientRead (env : Env) (c0 : Node) (sv direct address count osize : Nat) (signed raw : Bool) (dm16 : List Nat) :
    Node × List Out × Ret :=
  let r1 := read c0 sv direct address count osize signed raw
  let r2 := deliver env r1.1 0 true ⟨PGN_DM15, sv, proceedDm15 direct count⟩
  let r3 := deliver env r2.n 0 true ⟨PGN_DM16, sv, dm16⟩
  let r4 := deliver env r3.n 0 true ⟨PGN_DM15, sv, opcDm15 direct⟩
  let r5 := clientResume r4.n false
  (r5.1, r1.2.1 ++ r2.outs ++ r3.outs ++ r4.outs, r5.2)

theorem status_proceed (direct count : Nat) (hd : direct < 16) : Dm14.q_dm15_status (proceedDm15 direct count) = 0 := by
  simp only [Dm14.q_dm15_status, proceedDm15, Py.idx, List.getD_cons_succ, List.getD_cons_zero, ST_PROCEED, Nat.shiftLeft_eq,
    Nat.shiftRight_eq_div_pow]
  have : (direct * 2 ^ 4 + 0 * 2 ^ 1 + 1) / 2 ^ 1 = direct * 8 := by omega
  rw [this]
  have : (direct * 8) &&& 7 = (direct * 8) % 8 := Nat.and_two_pow_sub_one_eq_mod _ 3
  rw [this]; omega

theorem status_opc (direct : Nat) (hd : direct < 16) : Dm14.q_dm15_status (opcDm15 direct) = 4 := by
  simp only [Dm14.q_dm15_status, opcDm15, Py.idx, List.getD_cons_succ, List.getD_cons_zero, CMD_OPER_COMPLETED, Nat.shiftLeft_eq,
    Nat.shiftRight_eq_div_pow]
  have : (direct * 2 ^ 4 + 4 * 2 ^ 1 + 1) / 2 ^ 1 = direct * 8 + 4 := by omega
  rw [this]
  have : (direct * 8 + 4) &&& 7 = (direct * 8 + 4) % 8 := Nat.and_two_pow_sub_one_eq_mod _ 3
  rw [this]; omega

/-- the client node while its read waits for the first answer -/
def cWaitSeed (c0 : Node) (sv direct address count osize : Nat) (signed raw : Bool) : Node :=
  { c0 with f := .waitQuery, subs := [.listen, .q15],
            q := { c0.q with state := .waitSeed, dest := sv, direct := direct, address := address, objectCount := count,
                             objSize := osize, signed := signed, raw := raw, command := CMD_READ, isRead := true } }

theorem client_read_begin (c0 : Node) (hcl : Clean c0) (sv direct address count osize : Nat) (signed raw : Bool)
    (hc : count ≠ 0) (ha : address < 2 ^ 32) :
    Dm14.read c0 sv direct address count osize signed raw =
      (cWaitSeed c0 sv direct address count osize signed raw,
       [.tx PGN_DM14 (sv &&& 0xFF) 6 (openDm14 count direct CMD_READ address c0.q.userLevel)], .blocked) := by
  have ha' : ¬ address ≥ 2 ^ 32 := by omega
  simp [Dm14.read, readBegin, hcl.f, hc, ha', sub, hcl.subs, hcl.qd, qDm14, openDm14, cWaitSeed]

theorem client_read_proceed (env : Env) (c : Node) (sv direct count : Nat) (hd : direct < 16) (hsubs : c.subs = [.listen, .q15])
    (h1 : c.q.state = .waitSeed) (h2 : c.q.dest = sv) (h3 : c.q.objectCount = count) (h4 : c.q.command = CMD_READ) :
    (deliver env c 0 true ⟨PGN_DM15, sv, proceedDm15 direct count⟩).outs = [] ∧ (deliver env c 0 true ⟨PGN_DM15, sv, proceedDm15 direct count⟩).err = none ∧ (deliver env c 0 true ⟨PGN_DM15, sv, proceedDm15 direct count⟩).n.subs = [.listen, .q16] ∧
    (deliver env c 0 true ⟨PGN_DM15, sv, proceedDm15 direct count⟩).n.q = { c.q with state := .waitDm16 } ∧ (deliver env c 0 true ⟨PGN_DM15, sv, proceedDm15 direct count⟩).n.s = c.s ∧ (deliver env c 0 true ⟨PGN_DM15, sv, proceedDm15 direct count⟩).n.f = c.f := by
  have hsp := status_proceed direct count hd
  have hseed : Dm14.q_dm15_seed (proceedDm15 direct count) = 0xFFFF := rfl
  have hlen : ¬ (proceedDm15 direct count).length < 8 := by simp [proceedDm15]
  have h0 : Py.idx (proceedDm15 direct count) 0 = count := rfl
  have hq15 : qParseDm15 env c ⟨PGN_DM15, sv, proceedDm15 direct count⟩ =
      { n := sub (unsub { c with q := { c.q with state := .waitDm16 } } .q15) .q16 } := by
    simp [qParseDm15, h2, hlen, hsp, hseed, h0, h3, ST_BUSY, ST_OPER_FAILED, qWaitForData, h1, h4, CMD_READ, CMD_WRITE]
  have hli : fListen env c 0 true ⟨PGN_DM15, sv, proceedDm15 direct count⟩ = { n := c } := by
    simp [fListen, PGN_DM15, PGN_DM14]
  have hq16 : ∀ m : Node, qParseDm16 m ⟨PGN_DM15, sv, proceedDm15 direct count⟩ = { n := m } := by
    intro m; simp [qParseDm16, PGN_DM15, PGN_DM16]
  simp [deliver, notifyLoop, hsubs, runCb, hli, hq15, hq16, sub, unsub]

theorem client_read_data (env : Env) (c : Node) (sv : Nat) (dm16 d : List Nat)
    (h16 : 1 ≤ dm16.length) (hpay : Py.slice dm16 1 (min (Py.idx dm16 0) (dm16.length - 1) + 1) = d)
    (hsubs : c.subs = [.listen, .q16]) (h2 : c.q.dest = sv) :
    (deliver env c 0 true ⟨PGN_DM16, sv, dm16⟩).outs = [] ∧ (deliver env c 0 true ⟨PGN_DM16, sv, dm16⟩).err = none ∧ (deliver env c 0 true ⟨PGN_DM16, sv, dm16⟩).n.subs = [.listen, .q15] ∧
    (deliver env c 0 true ⟨PGN_DM16, sv, dm16⟩).n.q = { c.q with state := .waitOper, memData := some d } ∧ (deliver env c 0 true ⟨PGN_DM16, sv, dm16⟩).n.s = c.s ∧ (deliver env c 0 true ⟨PGN_DM16, sv, dm16⟩).n.f = c.f := by
  have h16' : ¬ dm16.length < 1 := by omega
  have hq16 : qParseDm16 c ⟨PGN_DM16, sv, dm16⟩ =
      { n := { sub (unsub { c with q := { c.q with memData := some d } } .q16) .q15 with
                 q := { c.q with memData := some d, state := .waitOper } } } := by
    simp [qParseDm16, h2, h16', hpay, sub, unsub]
  have hli : fListen env c 0 true ⟨PGN_DM16, sv, dm16⟩ = { n := c } := by
    simp [fListen, PGN_DM16, PGN_DM14]
  have hq15 : ∀ m : Node, qParseDm15 env m ⟨PGN_DM16, sv, dm16⟩ = { n := m } := by
    intro m; simp [qParseDm15, PGN_DM15, PGN_DM16]
  simp [deliver, notifyLoop, hsubs, runCb, hli, hq15, hq16, sub, unsub]

theorem client_read_complete (env : Env) (c : Node) (sv direct count : Nat) (hd : direct < 16) (hc : count ≠ 0)
    (hsubs : c.subs = [.listen, .q15]) (h1 : c.q.state = .waitOper) (h2 : c.q.dest = sv) (h3 : c.q.objectCount = count) :
    (deliver env c 0 true ⟨PGN_DM15, sv, opcDm15 direct⟩).outs = [qDm14 { c.q with objectCount := 1, command := CMD_OPER_COMPLETED } 0xFFFF] ∧ (deliver env c 0 true ⟨PGN_DM15, sv, opcDm15 direct⟩).err = none ∧
    (deliver env c 0 true ⟨PGN_DM15, sv, opcDm15 direct⟩).n.subs = [.listen, .q15] ∧
    (deliver env c 0 true ⟨PGN_DM15, sv, opcDm15 direct⟩).n.q = { c.q with objectCount := 1, command := CMD_OPER_COMPLETED, state := .idle, dataQ := c.q.dataQ ++ [c.q.memData] } ∧
    (deliver env c 0 true ⟨PGN_DM15, sv, opcDm15 direct⟩).n.s = c.s ∧ (deliver env c 0 true ⟨PGN_DM15, sv, opcDm15 direct⟩).n.f = c.f := by
  have hso := status_opc direct hd
  have hseed : Dm14.q_dm15_seed (opcDm15 direct) = 0xFFFF := rfl
  have hlen : ¬ (opcDm15 direct).length < 8 := by simp [opcDm15]
  have h0 : Py.idx (opcDm15 direct) 0 = 0 := rfl
  have hc0 : ¬ (0 = count) := fun h => hc h.symm
  have hq15 : qParseDm15 env c ⟨PGN_DM15, sv, opcDm15 direct⟩ =
      { n := { c with q := { c.q with objectCount := 1, command := CMD_OPER_COMPLETED, state := .idle,
                                      dataQ := c.q.dataQ ++ [c.q.memData] } },
         outs := [qDm14 { c.q with objectCount := 1, command := CMD_OPER_COMPLETED } 0xFFFF] } := by
    simp [qParseDm15, h2, hlen, hso, hseed, h0, h3, hc0, ST_BUSY, ST_OPER_FAILED, h1, CMD_OPER_COMPLETED]
  have hli : fListen env c 0 true ⟨PGN_DM15, sv, opcDm15 direct⟩ = { n := c } := by
    simp [fListen, PGN_DM15, PGN_DM14]
  simp [deliver, notifyLoop, hsubs, runCb, hli, hq15]

theorem client_resume_read (c : Node) (d : List Nat) (osize : Nat) (signed raw : Bool)
    (h1 : c.q.dataQ = [some d]) (h2 : c.q.excQ = []) (h3 : c.q.isRead = true) (h4 : c.q.objSize = osize) (h5 : c.q.signed = signed)
    (h6 : c.q.raw = raw) :
    (clientResume c false).2 = readResult osize signed raw d ∧
    (clientResume c false).1.f = .idle ∧ (clientResume c false).1.q.state = .idle ∧ (clientResume c false).1.q.dataQ = [] ∧
    (clientResume c false).1.q.excQ = [] ∧ (clientResume c false).1.subs = (c.subs.filter (· != Cb.q15)).filter (· != Cb.q16) ∧
    (clientResume c false).1.s = c.s := by
  simp [clientResume, h1, h2, h3, h4, h5, h6, readResult, qEnd, unsub]
  cases d <;> simp

/-- READ, client side: the call sends the opening DM14, then — fed proceed, the DM16 and operation-complete — the
    closing DM14, and returns exactly the DM16's payload (raw or converted); nothing of the transaction stays behind -/
theorem client_read (env : Env) (c0 : Node) (hcl : Clean c0) (sv direct address count osize : Nat) (signed raw : Bool) (dm16 d : List Nat)
    (hc : count ≠ 0) (ha : address < 2 ^ 32) (hd : direct < 16) (h16 : 1 ≤ dm16.length)
    (hpay : Py.slice dm16 1 (min (Py.idx dm16 0) (dm16.length - 1) + 1) = d) :
    (clientRead env c0 sv direct address count osize signed raw dm16).2.1 =
      [.tx PGN_DM14 (sv &&& 0xFF) 6 (openDm14 count direct CMD_READ address c0.q.userLevel),
       .tx PGN_DM14 (sv &&& 0xFF) 6 (closeDm14 direct address)] ∧
    (clientRead env c0 sv direct address count osize signed raw dm16).2.2 = readResult osize signed raw d ∧
    Clean (clientRead env c0 sv direct address count osize signed raw dm16).1 ∧
    (clientRead env c0 sv direct address count osize signed raw dm16).1.s = c0.s := by
  unfold clientRead
  rw [client_read_begin c0 hcl sv direct address count osize signed raw hc ha]
  dsimp only
  generalize hc1 : cWaitSeed c0 sv direct address count osize signed raw = c1
  have c1subs : c1.subs = [.listen, .q15] := by rw [← hc1]; rfl
  have c1q : c1.q = { c0.q with state := .waitSeed, dest := sv, direct := direct, address := address, objectCount := count,
                                objSize := osize, signed := signed, raw := raw, command := CMD_READ, isRead := true } := by
    rw [← hc1]; rfl
  have c1s : c1.s = c0.s := by rw [← hc1]; rfl
  obtain ⟨a1, a2, a3, a4, a5, a6⟩ := client_read_proceed env c1 sv direct count hd c1subs (by rw [c1q]) (by rw [c1q]) (by rw [c1q]) (by rw [c1q])
  generalize (deliver env c1 0 true ⟨PGN_DM15, sv, proceedDm15 direct count⟩) = r2 at *
  obtain ⟨b1, b2, b3, b4, b5, b6⟩ := client_read_data env r2.n sv dm16 d h16 hpay a3 (by rw [a4, c1q])
  generalize (deliver env r2.n 0 true ⟨PGN_DM16, sv, dm16⟩) = r3 at *
  obtain ⟨e1, e2, e3, e4, e5, e6⟩ := client_read_complete env r3.n sv direct count hd hc b3 (by rw [b4]) (by rw [b4, a4, c1q]) (by rw [b4, a4, c1q])
  generalize (deliver env r3.n 0 true ⟨PGN_DM15, sv, opcDm15 direct⟩) = r4 at *
  obtain ⟨g1, g2, g3, g4, g5, g6, g7⟩ := client_resume_read r4.n d osize signed raw
    (by rw [e4, b4, a4, c1q]; simp [hcl.qd]) (by rw [e4, b4, a4, c1q]; simp [hcl.qe]) (by rw [e4, b4, a4, c1q]) (by rw [e4, b4, a4, c1q])
    (by rw [e4, b4, a4, c1q]) (by rw [e4, b4, a4, c1q])
  refine ⟨?_, g1, ⟨g2, g3, ?_, ?_, g4, g5, ?_, ?_, ?_, ?_, ?_⟩, ?_⟩
  · rw [a1, b1, e1, b4, a4, c1q]
    simp [qDm14, closeDm14, openDm14, CMD_OPER_COMPLETED]
  · rw [g7, e5, b5, a5, c1s]; exact hcl.s
  · rw [g6, e3]; simp
  · rw [g7, e5, b5, a5, c1s]; exact hcl.sd
  · rw [g7, e5, b5, a5, c1s]; exact hcl.sa
  · rw [g7, e5, b5, a5, c1s]; exact hcl.addr
  · rw [g7, e5, b5, a5, c1s]; exact hcl.busy
  · rw [g7, e5, b5, a5, c1s]; exact hcl.len
  · rw [g7, e5, b5, a5, c1s]

-- ------------------------------------------------------------------------------------------------ whole transactions
theorem srvDm16_payload (d : List Nat) (hd : d.length ≤ 255) :
    Py.slice (srvDm16 d) 1 (min (Py.idx (srvDm16 d) 0) ((srvDm16 d).length - 1) + 1) = d := by
  unfold srvDm16
  by_cases h : d.length > 7
  · have : 8 - d.length - 1 = 0 := by omega
    simp only [h, if_true, this, List.replicate_zero, List.append_nil, Py.idx, List.getD_cons_zero, List.length_cons,
      Nat.add_sub_cancel, Py.slice]
    have : min 255 d.length = d.length := by omega
    rw [this]; simp
  · simp only [h, if_false, Py.idx, List.cons_append, List.getD_cons_zero, List.length_cons, List.length_append,
      List.length_replicate, Nat.add_sub_cancel, Py.slice]
    have : min d.length (d.length + (8 - d.length - 1)) = d.length := by omega
    rw [this]
    simp [List.take_append_of_le_length]

theorem srvDm16_long (d : List Nat) (hd : 7 < d.length) : srvDm16 d = 0xFF :: d := by
  unfold srvDm16
  have : 8 - d.length - 1 = 0 := by omega
  simp [hd, this]

theorem clean_of (n : Node) (h1 : n.f = .idle) (h2 : n.q.state = .idle) (h3 : n.s.state = .idle) (h4 : n.subs = [.listen])
    (h5 : n.q.dataQ = []) (h6 : n.q.excQ = []) (h7 : n.s.dataQ = []) (h8 : n.s.sa = none) (h9 : n.s.address = none)
    (h10 : n.s.busy = false) (h11 : n.s.length = 8) : Clean n := ⟨h1, h2, h3, h4, h5, h6, h7, h8, h9, h10, h11⟩

/-- C17, READ of 1..7 bytes without seed/key, the whole transaction between a clean client and a clean server.
    The PDUs each side consumes are exactly the PDUs the other side produced (same terms on both sides of the
    statement), in the only order per-pair FIFO delivery allows:
    * the serving application is asked once, with the command, memory address, pointer type, count and requester the
      client used;
    * its answer `d` goes out as proceed / DM16 / operation complete;
    * the client's call returns exactly `d` (raw) or the values `d` encodes at the given size and signedness;
    * after the closing DM14 BOTH nodes are clean again (all three state machines idle, queues empty, only the facade
      subscribed, server bound to nobody) — so the next transaction starts from the same premises. -/
theorem c17_read_short (env : Env) (c0 s0 : Node) (hc0 : Clean c0) (hs0 : Clean s0) (hsec : s0.seedSecurity = false)
    (hp : s0.hasProceed = true) (hk : s0.s.hasKey = false) (cl sv direct address count osize : Nat) (signed raw : Bool) (d : List Nat)
    (seed seed' e x : Nat) (hcount : count ≠ 0) (ha : address < 2 ^ 32) (hd : direct < 16) (hlv : c0.q.userLevel < 2 ^ 16)
    (hd7 : d.length ≤ 7) :
    let rq := deliver env s0 seed true ⟨PGN_DM14, cl, openDm14 count direct CMD_READ address c0.q.userLevel⟩
    let rp := respond rq.n seed' true d e x
    let rc := clientRead env c0 sv direct address count osize signed raw (srvDm16 d)
    let rz := deliver env rp.1 seed true ⟨PGN_DM14, cl, closeDm14 direct address⟩
    rq.outs = [.proceed CMD_READ address (direct % 2) 8 count 0xFFFF cl c0.q.userLevel 0, .notify] ∧ rq.err = none ∧
    rp.2 = ([.tx PGN_DM15 (cl &&& 0xFF) 6 (proceedDm15 direct count), .tx PGN_DM16 (cl &&& 0xFF) 7 (srvDm16 d),
             .tx PGN_DM15 (cl &&& 0xFF) 6 (opcDm15 direct)], .none) ∧
    rc.2.1 = [.tx PGN_DM14 (sv &&& 0xFF) 6 (openDm14 count direct CMD_READ address c0.q.userLevel),
              .tx PGN_DM14 (sv &&& 0xFF) 6 (closeDm14 direct address)] ∧
    rc.2.2 = readResult osize signed raw d ∧ Clean rc.1 ∧
    rz.outs = [] ∧ rz.err = none ∧ Clean rz.n := by
  intro rq rp rc rz
  have hacc := server_accepts env s0 hs0 hsec hp seed cl count direct CMD_READ address c0.q.userLevel (by decide) hd ha hlv hk
  have hA := accepted_of_server_accepts s0 hs0 cl count direct CMD_READ address c0.q.userLevel
  have hrq : rq = _ := hacc
  have hrqn : Accepted rq.n cl count direct CMD_READ := by rw [hrq]; exact hA
  obtain ⟨p1, p2, p3, p4, p5, p6, p7, p8, p9, p10, p11⟩ := server_read_short rq.n cl count direct seed' hrqn d hd7 e x
  obtain ⟨c1, c2, c3, c4⟩ := client_read env c0 hc0 sv direct address count osize signed raw (srvDm16 d) d hcount ha hd
    (by simp [srvDm16]) (srvDm16_payload d (by omega))
  have hclosing : Closing rp.1 cl := ⟨p2, Or.inl p3, p4, p5, p6, p7, p8⟩
  have haddr : ∀ ad, rp.1.s.address = some ad → ad = Py.slice (closeDm14 direct address) 2 6 := by
    intro ad h
    rw [p10, hrq] at h
    simp only [Option.some.injEq] at h
    rw [← h, closeDm14, open_slice]
  obtain ⟨z1, z2, z3, z4, z5, z6, z7, z8, z9, z10, z11⟩ := server_closing env rp.1 cl seed true (closeDm14 direct address) hclosing
    (by simp [closeDm14, openDm14, toBytesLE_length]) haddr
  refine ⟨by rw [hrq], by rw [hrq], p1, c1, c2, c3, z1, z2, ?_⟩
  exact clean_of _ z3 (by rw [z11, p9, hrq]; exact hs0.q) z4 z5 (by rw [z11, p9, hrq]; exact hs0.qd) (by rw [z11, p9, hrq]; exact hs0.qe)
    z8 z6 z7 z9 z10

/-- C17, READ of 8..255 bytes (multi-packet DM16) without seed/key: as `c17_read_short`, with the transport's
    end-of-message acknowledgement (any content) triggering operation-complete — and NOT leaving anything in the
    server's data queue (D15).  Exactly `d` comes back for every length up to 255 (the 7/8 boundary is D14). -/
theorem c17_read_long (env : Env) (c0 s0 : Node) (hc0 : Clean c0) (hs0 : Clean s0) (hsec : s0.seedSecurity = false)
    (hp : s0.hasProceed = true) (hk : s0.s.hasKey = false) (cl sv direct address count osize : Nat) (signed raw : Bool) (d ack : List Nat)
    (seed seed' e x : Nat) (hcount : count ≠ 0) (ha : address < 2 ^ 32) (hd : direct < 16) (hlv : c0.q.userLevel < 2 ^ 16)
    (hd8 : 7 < d.length) (hd255 : d.length ≤ 255) (hack : 1 ≤ ack.length) :
    let rq := deliver env s0 seed true ⟨PGN_DM14, cl, openDm14 count direct CMD_READ address c0.q.userLevel⟩
    let rp := respond rq.n seed' true d e x
    let ra := deliver env rp.1 seed true ⟨PGN_DM16, cl, ack⟩
    let rc := clientRead env c0 sv direct address count osize signed raw (srvDm16 d)
    let rz := deliver env ra.n seed true ⟨PGN_DM14, cl, closeDm14 direct address⟩
    rq.outs = [.proceed CMD_READ address (direct % 2) 8 count 0xFFFF cl c0.q.userLevel 0, .notify] ∧ rq.err = none ∧
    rp.2 = ([.tx PGN_DM15 (cl &&& 0xFF) 6 (proceedDm15 direct count), .tx PGN_DM16 (cl &&& 0xFF) 7 (srvDm16 d)], .none) ∧
    ra.outs = [.tx PGN_DM15 (cl &&& 0xFF) 6 (opcDm15 direct)] ∧ ra.err = none ∧
    rc.2.1 = [.tx PGN_DM14 (sv &&& 0xFF) 6 (openDm14 count direct CMD_READ address c0.q.userLevel),
              .tx PGN_DM14 (sv &&& 0xFF) 6 (closeDm14 direct address)] ∧
    rc.2.2 = readResult osize signed raw d ∧ Clean rc.1 ∧
    rz.outs = [] ∧ rz.err = none ∧ Clean rz.n := by
  intro rq rp ra rc rz
  have hacc := server_accepts env s0 hs0 hsec hp seed cl count direct CMD_READ address c0.q.userLevel (by decide) hd ha hlv hk
  have hA := accepted_of_server_accepts s0 hs0 cl count direct CMD_READ address c0.q.userLevel
  have hrq : rq = _ := hacc
  have hrqn : Accepted rq.n cl count direct CMD_READ := by rw [hrq]; exact hA
  obtain ⟨p1, p2, p3, p4, p5, p6, p7, p8, p9, p10, p11⟩ := server_read_long rq.n cl count direct seed' hrqn d hd8 e x
  obtain ⟨a1, a2, a3, a4, a5⟩ := server_read_ack env rp.1 cl direct seed true ack hack p2 p3 p4 p5 p6 p7 p8 p9
  obtain ⟨c1, c2, c3, c4⟩ := client_read env c0 hc0 sv direct address count osize signed raw (srvDm16 d) d hcount ha hd
    (by simp [srvDm16]) (srvDm16_payload d hd255)
  have haddr : ∀ ad, ra.n.s.address = some ad → ad = Py.slice (closeDm14 direct address) 2 6 := by
    intro ad h
    rw [a5, p11, hrq] at h
    simp only [Option.some.injEq] at h
    rw [← h, closeDm14, open_slice]
  obtain ⟨z1, z2, z3, z4, z5, z6, z7, z8, z9, z10, z11⟩ := server_closing env ra.n cl seed true (closeDm14 direct address) a3
    (by simp [closeDm14, openDm14, toBytesLE_length]) haddr
  refine ⟨by rw [hrq], by rw [hrq], by rw [p1, srvDm16_long d hd8], a1, a2, c1, c2, c3, z1, z2, ?_⟩
  exact clean_of _ z3 (by rw [z11, a4, p10, hrq]; exact hs0.q) z4 z5 (by rw [z11, a4, p10, hrq]; exact hs0.qd)
    (by rw [z11, a4, p10, hrq]; exact hs0.qe) z8 z6 z7 z9 z10

-- ------------------------------------------------------------------------------------------------ write
def cWaitSeedW (c0 : Node) (sv direct address osize : Nat) (values : List Nat) : Node :=
  { c0 with f := .waitQuery, subs := [.listen, .q15],
            q := { c0.q with state := .waitSeed, dest := sv, direct := direct, address := address, objSize := osize, command := CMD_WRITE,
                             isRead := false, bytes := valuesToBytes osize values, objectCount := values.length } }

theorem client_write_begin (c0 : Node) (hcl : Clean c0) (sv direct address osize : Nat) (values : List Nat)
    (hv : ∀ v ∈ values, v < 256 ^ osize) (ha : address < 2 ^ 32) :
    Dm14.write c0 sv direct address values osize =
      (cWaitSeedW c0 sv direct address osize values,
       [.tx PGN_DM14 (sv &&& 0xFF) 6 (openDm14 values.length direct CMD_WRITE address c0.q.userLevel)], .blocked) := by
  have ha' : ¬ address ≥ 2 ^ 32 := by omega
  have hany : values.any (fun v => decide (v ≥ 256 ^ osize)) = false := by
    simp only [List.any_eq_false, decide_eq_true_eq]
    intro v hv'; have := hv v hv'; omega
  simp [Dm14.write, writeBegin, hcl.f, hany, ha', sub, hcl.subs, hcl.qd, qDm14, openDm14, cWaitSeedW, valuesToBytes]

/-- WRITE, client side: on proceed the client sends its DM16 with exactly the bytes of the values -/
theorem client_write_proceed (env : Env) (c : Node) (sv direct count : Nat) (hd : direct < 16) (hsubs : c.subs = [.listen, .q15])
    (h1 : c.q.state = .waitSeed) (h2 : c.q.dest = sv) (h3 : c.q.objectCount = count) (h4 : c.q.command = CMD_WRITE) :
    (deliver env c 0 true ⟨PGN_DM15, sv, proceedDm15 direct count⟩).outs = [.tx PGN_DM16 (sv &&& 0xFF) 6 (cliDm16 c.q.bytes)] ∧ (deliver env c 0 true ⟨PGN_DM15, sv, proceedDm15 direct count⟩).err = none ∧ (deliver env c 0 true ⟨PGN_DM15, sv, proceedDm15 direct count⟩).n.subs = [.listen, .q15] ∧
    (deliver env c 0 true ⟨PGN_DM15, sv, proceedDm15 direct count⟩).n.q = { c.q with state := .waitOper } ∧ (deliver env c 0 true ⟨PGN_DM15, sv, proceedDm15 direct count⟩).n.s = c.s ∧ (deliver env c 0 true ⟨PGN_DM15, sv, proceedDm15 direct count⟩).n.f = c.f := by
  have hsp := status_proceed direct count hd
  have hseed : Dm14.q_dm15_seed (proceedDm15 direct count) = 0xFFFF := rfl
  have hlen : ¬ (proceedDm15 direct count).length < 8 := by simp [proceedDm15]
  have h0 : Py.idx (proceedDm15 direct count) 0 = count := rfl
  have hq15 : qParseDm15 env c ⟨PGN_DM15, sv, proceedDm15 direct count⟩ =
      { n := { c with q := { c.q with state := .waitOper } }, outs := [.tx PGN_DM16 (sv &&& 0xFF) 6 (cliDm16 c.q.bytes)] } := by
    simp [qParseDm15, h2, hlen, hsp, hseed, h0, h3, ST_BUSY, ST_OPER_FAILED, qWaitForData, h1, h4, CMD_WRITE, qDm16, cliDm16]
  have hli : fListen env c 0 true ⟨PGN_DM15, sv, proceedDm15 direct count⟩ = { n := c } := by
    simp [fListen, PGN_DM15, PGN_DM14]
  simp [deliver, notifyLoop, hsubs, runCb, hli, hq15]

theorem client_resume_write (c : Node) (item : Option (List Nat)) (h1 : c.q.dataQ = [item]) (h2 : c.q.excQ = []) (h3 : c.q.isRead = false) :
    (clientResume c false).2 = .none ∧
    (clientResume c false).1.f = .idle ∧ (clientResume c false).1.q.state = .idle ∧ (clientResume c false).1.q.dataQ = [] ∧
    (clientResume c false).1.q.excQ = [] ∧ (clientResume c false).1.subs = (c.subs.filter (· != Cb.q15)).filter (· != Cb.q16) ∧
    (clientResume c false).1.s = c.s := by
  simp [clientResume, h1, h2, h3, qEnd, unsub]

/-- the client's side of a write, fed the server's two PDUs -/
def clientWrite (env : Env) (c0 : Node) (sv direct address osize : Nat) (values : List Nat) : Node × List Out × Ret :=
  let r1 := Dm14.write c0 sv direct address values osize
  let r2 := deliver env r1.1 0 true ⟨PGN_DM15, sv, proceedDm15 direct values.length⟩
  let r4 := deliver env r2.n 0 true ⟨PGN_DM15, sv, opcDm15 direct⟩
  let r5 := clientResume r4.n false
  (r5.1, r1.2.1 ++ r2.outs ++ r4.outs, r5.2)

theorem client_write (env : Env) (c0 : Node) (hcl : Clean c0) (sv direct address osize : Nat) (values : List Nat)
    (hv : ∀ v ∈ values, v < 256 ^ osize) (hc : values ≠ []) (ha : address < 2 ^ 32) (hd : direct < 16) :
    (clientWrite env c0 sv direct address osize values).2.1 =
      [.tx PGN_DM14 (sv &&& 0xFF) 6 (openDm14 values.length direct CMD_WRITE address c0.q.userLevel),
       .tx PGN_DM16 (sv &&& 0xFF) 6 (cliDm16 (valuesToBytes osize values)),
       .tx PGN_DM14 (sv &&& 0xFF) 6 (closeDm14 direct address)] ∧
    (clientWrite env c0 sv direct address osize values).2.2 = .none ∧
    Clean (clientWrite env c0 sv direct address osize values).1 ∧
    (clientWrite env c0 sv direct address osize values).1.s = c0.s := by
  unfold clientWrite
  rw [client_write_begin c0 hcl sv direct address osize values hv ha]
  dsimp only
  generalize hc1 : cWaitSeedW c0 sv direct address osize values = c1
  have c1subs : c1.subs = [.listen, .q15] := by rw [← hc1]; rfl
  have c1q : c1.q = { c0.q with state := .waitSeed, dest := sv, direct := direct, address := address, objSize := osize,
                                command := CMD_WRITE, isRead := false, bytes := valuesToBytes osize values,
                                objectCount := values.length } := by
    rw [← hc1]; rfl
  have c1s : c1.s = c0.s := by rw [← hc1]; rfl
  have hcount : values.length ≠ 0 := by
    intro h; exact hc (List.length_eq_zero_iff.mp h)
  obtain ⟨a1, a2, a3, a4, a5, a6⟩ := client_write_proceed env c1 sv direct values.length hd c1subs (by rw [c1q]) (by rw [c1q]) (by rw [c1q]) (by rw [c1q])
  generalize (deliver env c1 0 true ⟨PGN_DM15, sv, proceedDm15 direct values.length⟩) = r2 at *
  obtain ⟨e1, e2, e3, e4, e5, e6⟩ := client_read_complete env r2.n sv direct values.length hd hcount a3 (by rw [a4]) (by rw [a4, c1q]) (by rw [a4, c1q])
  generalize (deliver env r2.n 0 true ⟨PGN_DM15, sv, opcDm15 direct⟩) = r4 at *
  obtain ⟨g1, g2, g3, g4, g5, g6, g7⟩ := client_resume_write r4.n r2.n.q.memData
    (by rw [e4, a4, c1q]; simp [hcl.qd]) (by rw [e4, a4, c1q]; simp [hcl.qe]) (by rw [e4, a4, c1q])
  refine ⟨?_, g1, ⟨g2, g3, ?_, ?_, g4, g5, ?_, ?_, ?_, ?_, ?_⟩, ?_⟩
  · rw [a1, e1, a4, c1q]
    simp [qDm14, closeDm14, openDm14, CMD_OPER_COMPLETED]
  · rw [g7, e5, a5, c1s]; exact hcl.s
  · rw [g6, e3]; simp
  · rw [g7, e5, a5, c1s]; exact hcl.sd
  · rw [g7, e5, a5, c1s]; exact hcl.sa
  · rw [g7, e5, a5, c1s]; exact hcl.addr
  · rw [g7, e5, a5, c1s]; exact hcl.busy
  · rw [g7, e5, a5, c1s]; exact hcl.len
  · rw [g7, e5, a5, c1s]

/-- C17, WRITE of 1..255 bytes without seed/key, the whole transaction: the serving application is asked once with
    what the client asked (command WRITE, address, pointer type, number of values, requester), `respond()` hands it
    EXACTLY the little-endian bytes of the written values, the client's call returns, both nodes are clean. -/
theorem c17_write (env : Env) (c0 s0 : Node) (hc0 : Clean c0) (hs0 : Clean s0) (hsec : s0.seedSecurity = false)
    (hp : s0.hasProceed = true) (hk : s0.s.hasKey = false) (cl sv direct address osize : Nat) (values : List Nat) (dd : List Nat)
    (seed seed' e x : Nat) (hv : ∀ v ∈ values, v < 256 ^ osize) (hne : values ≠ []) (hbytes : values.length * osize ≤ 255)
    (ha : address < 2 ^ 32) (hd : direct < 16) (hlv : c0.q.userLevel < 2 ^ 16) :
    let rq := deliver env s0 seed true ⟨PGN_DM14, cl, openDm14 values.length direct CMD_WRITE address c0.q.userLevel⟩
    let rp := respond rq.n seed' true dd e x
    let rc := clientWrite env c0 sv direct address osize values
    let rw := deliver env rp.1 seed true ⟨PGN_DM16, cl, cliDm16 (valuesToBytes osize values)⟩
    let rr := respondResume rw.n false
    let rz := deliver env rr.1 seed true ⟨PGN_DM14, cl, closeDm14 direct address⟩
    rq.outs = [.proceed CMD_WRITE address (direct % 2) 8 values.length 0xFFFF cl c0.q.userLevel 0, .notify] ∧ rq.err = none ∧
    rp.2 = ([.tx PGN_DM15 (cl &&& 0xFF) 6 (proceedDm15 direct values.length)], .blocked) ∧
    rw.outs = [.tx PGN_DM15 (cl &&& 0xFF) 6 (opcDm15 direct)] ∧ rw.err = none ∧
    rr.2 = .data (valuesToBytes osize values) ∧
    rc.2.1 = [.tx PGN_DM14 (sv &&& 0xFF) 6 (openDm14 values.length direct CMD_WRITE address c0.q.userLevel),
              .tx PGN_DM16 (sv &&& 0xFF) 6 (cliDm16 (valuesToBytes osize values)),
              .tx PGN_DM14 (sv &&& 0xFF) 6 (closeDm14 direct address)] ∧
    rc.2.2 = .none ∧ Clean rc.1 ∧
    rz.outs = [] ∧ rz.err = none ∧ Clean rz.n := by
  intro rq rp rc rw rr rz
  have hacc := server_accepts env s0 hs0 hsec hp seed cl values.length direct CMD_WRITE address c0.q.userLevel (by decide) hd ha hlv hk
  have hA := accepted_of_server_accepts s0 hs0 cl values.length direct CMD_WRITE address c0.q.userLevel
  have hrq : rq = _ := hacc
  have hrqn : Accepted rq.n cl values.length direct CMD_WRITE := by rw [hrq]; exact hA
  obtain ⟨p1, p2, p3, p4, p5, p6, p7, p8, p9, p10, p11⟩ := server_write_begin rq.n cl values.length direct seed' hrqn dd e x
  obtain ⟨w1, w2, w3, w4, w5, w6⟩ := server_write_data env rp.1 cl direct seed true (valuesToBytes osize values)
    (by rw [valuesToBytes_length]; exact hbytes) p2 p3 p4 p5 p6 p7 p8 p9
  obtain ⟨c1, c2, c3, c4⟩ := client_write env c0 hc0 sv direct address osize values hv hne ha hd
  have haddr : ∀ ad, rr.1.s.address = some ad → ad = Py.slice (closeDm14 direct address) 2 6 := by
    intro ad h
    rw [w6, p11, hrq] at h
    simp only [Option.some.injEq] at h
    rw [← h, closeDm14, open_slice]
  obtain ⟨z1, z2, z3, z4, z5, z6, z7, z8, z9, z10, z11⟩ := server_closing env rr.1 cl seed true (closeDm14 direct address) w4
    (by simp [closeDm14, openDm14, toBytesLE_length]) haddr
  refine ⟨by rw [hrq], by rw [hrq], p1, w1, w2, w3, c1, c2, c3, z1, z2, ?_⟩
  exact clean_of _ z3 (by rw [z11, w5, p10, hrq]; exact hs0.q) z4 z5 (by rw [z11, w5, p10, hrq]; exact hs0.qd)
    (by rw [z11, w5, p10, hrq]; exact hs0.qe) z8 z6 z7 z9 z10

-- ------------------------------------------------------------------------------------------------ seed / key handshake
/-- SEED/KEY, server side, step 1: the opening DM14 is answered with the seed the generator returns; the application is
    not consulted; the server waits for the key -/
theorem server_sends_seed (env : Env) (s0 : Node) (hcl : Clean s0) (hsec : s0.seedSecurity = true) (hk : s0.s.hasKey = true)
    (seed cl count direct cmd address level : Nat) (hc : cmd < 8) (hd : direct < 16) (hlv : level < 2 ^ 16) :
    deliver env s0 seed true ⟨PGN_DM14, cl, openDm14 count direct cmd address level⟩ =
      { n := { s0 with f := .requestStarted,
                       s := { s0.s with sa := some cl, state := .waitKey, status := ST_PROCEED, length := 8,
                                        address := some (Py.toBytesLE 4 address), direct := direct, command := cmd,
                                        pointerType := direct % 2, objectCount := count, accessLevel := level,
                                        data := openDm14 count direct cmd address level, seed := seed } },
        outs := [.tx PGN_DM15 (cl &&& 0xFF) 6 (seedDm15 direct seed)], err := none } := by
  obtain ⟨h1, h2, h3, h4, h5, h6, h7, h8, h9, h10, h11⟩ := hcl
  have hcmd := cmd_decode count direct cmd address level hc hd
  have hpt := ptype_decode count direct cmd address level hc
  have hlen : (openDm14 count direct cmd address level).length = 8 := by simp [openDm14, toBytesLE_length]
  simp [deliver, notifyLoop, runCb, fListen, sParseDm14, sRejects, h1, h3, h4, h8, h9, h10, h11, hsec, hk, hlen,
    PGN_DM14, hcmd, hpt, open_slice, open_direct _ _ _ _ _ hc, open_count, open_level _ _ _ _ _ hlv, sDm15, seedDm15, Py.set, ST_PROCEED]

/-- SEED/KEY, server side, step 2: the DM14 carrying the RIGHT key (the configured function of the seed that was sent)
    for the same request is verified, the application is consulted with key and seed, and the node is in the same
    `Accepted` state a request without seed/key reaches — so everything after it (`server_read_short`,
    `server_read_long`, `server_write_*`, `server_closing`) applies unchanged -/
theorem server_accepts_key (env : Env) (s1 : Node) (cl count direct cmd address key sd2 : Nat)
    (hc : cmd < 8) (hd : direct < 16) (hkey : key < 2 ^ 16) (ha : address < 2 ^ 32)
    (hf : s1.f = .requestStarted) (hsubs : s1.subs = [.listen]) (hsec : s1.seedSecurity = true) (hp : s1.hasProceed = true)
    (hst : s1.s.state = .waitKey) (hsa : s1.s.sa = some cl) (haddr : s1.s.address = some (Py.toBytesLE 4 address))
    (hb : s1.s.busy = false) (hl : s1.s.length = 8) (hq : s1.s.dataQ = []) (hright : env.skey s1.s.seed = key) :
    (deliver env s1 sd2 true ⟨PGN_DM14, cl, openDm14 count direct cmd address key⟩).outs = [.proceed cmd address s1.s.pointerType 8 count key cl s1.s.accessLevel s1.s.seed, .notify] ∧
    (deliver env s1 sd2 true ⟨PGN_DM14, cl, openDm14 count direct cmd address key⟩).err = none ∧ Accepted (deliver env s1 sd2 true ⟨PGN_DM14, cl, openDm14 count direct cmd address key⟩).n cl count direct cmd ∧
    (deliver env s1 sd2 true ⟨PGN_DM14, cl, openDm14 count direct cmd address key⟩).n.q = s1.q ∧ (deliver env s1 sd2 true ⟨PGN_DM14, cl, openDm14 count direct cmd address key⟩).n.s.address = some (Py.toBytesLE 4 address) ∧
    cfg (deliver env s1 sd2 true ⟨PGN_DM14, cl, openDm14 count direct cmd address key⟩).n = cfg s1 := by
  have hcmd := cmd_decode count direct cmd address key hc hd
  have hlen : (openDm14 count direct cmd address key).length = 8 := by simp [openDm14, toBytesLE_length]
  have hcfg := cfg_deliver env s1 sd2 true ⟨PGN_DM14, cl, openDm14 count direct cmd address key⟩
  refine ⟨?_, ?_, ?_, ?_, ?_, hcfg⟩ <;>
  simp [deliver, notifyLoop, runCb, fListen, fConsult, sParseDm14, sRejects, hf, hsubs, hsec, hp, hst, hsa, haddr, hb, hl, hq, hlen,
    PGN_DM14, hcmd, open_slice, open_direct _ _ _ _ _ hc, open_count, open_level _ _ _ _ _ hkey, hright, Accepted,
    fromBytesLE_toBytesLE 4 address ha]

/-- SEED/KEY, client side: the seed DM15 is answered with the DM14 carrying the configured key function of EXACTLY that
    seed (any 16-bit seed, 0xFFFF included); the client's state does not change — it goes on waiting for proceed -/
theorem client_answers_seed (env : Env) (c : Node) (sv direct seed : Nat) (hd : direct < 16) (hs : seed < 2 ^ 16)
    (hsubs : c.subs = [.listen, .q15]) (h1 : c.q.state = .waitSeed) (h2 : c.q.dest = sv) (h3 : c.q.objectCount ≠ 0)
    (h4 : c.q.hasKey = true) :
    deliver env c 0 true ⟨PGN_DM15, sv, seedDm15 direct seed⟩ = { n := c, outs := [qDm14 c.q (env.ckey seed)] } := by
  have hst : Dm14.q_dm15_status (seedDm15 direct seed) = 0 := status_proceed direct 0 hd
  have hseed : Dm14.q_dm15_seed (seedDm15 direct seed) = seed := by
    simp only [Dm14.q_dm15_seed, seedDm15, Py.idx, List.getD_cons_succ, List.getD_cons_zero]
    have : seed &&& 255 = seed % 256 := Nat.and_two_pow_sub_one_eq_mod seed 8
    rw [this]
    simp only [Nat.shiftLeft_eq, Nat.shiftRight_eq_div_pow]
    omega
  have hlen : ¬ (seedDm15 direct seed).length < 8 := by simp [seedDm15]
  have h0 : Py.idx (seedDm15 direct seed) 0 = 0 := rfl
  have hc0 : ¬ (0 = c.q.objectCount) := fun h => h3 h.symm
  have hq15 : qParseDm15 env c ⟨PGN_DM15, sv, seedDm15 direct seed⟩ = { n := c, outs := [qDm14 c.q (env.ckey seed)] } := by
    simp [qParseDm15, h2, hlen, hst, hseed, h0, hc0, ST_BUSY, ST_OPER_FAILED, h1, h4]
  have hli : fListen env c 0 true ⟨PGN_DM15, sv, seedDm15 direct seed⟩ = { n := c } := by
    simp [fListen, PGN_DM15, PGN_DM14]
  simp [deliver, notifyLoop, hsubs, runCb, hli, hq15]

/-- C17, THE SEED/KEY HANDSHAKE END TO END (read or write, any seed the generator returns, any pair of key functions
    that agree on that seed): client and server exchange opening DM14 → seed DM15 → key DM14; the application is
    consulted once — with the client's command, address, pointer type, count, requester, AND the key and seed — and
    the server is then in the `Accepted` state from which `server_read_short` / `server_read_long` / `server_write_*`
    / `server_closing` run exactly as without seed/key, while the client is still in the state in which
    `client_read_proceed` / `client_write_proceed` apply -/
theorem c17_seedkey_handshake (env : Env) (c0 s0 : Node) (hc0 : Clean c0) (hs0 : Clean s0) (hsec : s0.seedSecurity = true)
    (hk : s0.s.hasKey = true) (hp : s0.hasProceed = true) (hck : c0.q.hasKey = true)
    (cl sv direct address count osize seed sd2 : Nat) (signed raw : Bool)
    (hcount : count ≠ 0) (ha : address < 2 ^ 32) (hd : direct < 16) (hlv : c0.q.userLevel < 2 ^ 16) (hseed : seed < 2 ^ 16)
    (hkeys : env.ckey seed = env.skey seed) (hk16 : env.skey seed < 2 ^ 16) :
    let rc1 := Dm14.read c0 sv direct address count osize signed raw
    let rs1 := deliver env s0 seed true ⟨PGN_DM14, cl, openDm14 count direct CMD_READ address c0.q.userLevel⟩
    let rc2 := deliver env rc1.1 0 true ⟨PGN_DM15, sv, seedDm15 direct seed⟩
    let rs2 := deliver env rs1.n sd2 true ⟨PGN_DM14, cl, openDm14 count direct CMD_READ address (env.skey seed)⟩
    rc1.2.1 = [.tx PGN_DM14 (sv &&& 0xFF) 6 (openDm14 count direct CMD_READ address c0.q.userLevel)] ∧
    rs1.outs = [.tx PGN_DM15 (cl &&& 0xFF) 6 (seedDm15 direct seed)] ∧
    rc2.outs = [.tx PGN_DM14 (sv &&& 0xFF) 6 (openDm14 count direct CMD_READ address (env.skey seed))] ∧ rc2.n = rc1.1 ∧
    rs2.outs = [.proceed CMD_READ address (direct % 2) 8 count (env.skey seed) cl c0.q.userLevel seed, .notify] ∧
    Accepted rs2.n cl count direct CMD_READ := by
  intro rc1 rs1 rc2 rs2
  have hb := client_read_begin c0 hc0 sv direct address count osize signed raw hcount ha
  have hS := server_sends_seed env s0 hs0 hsec hk seed cl count direct CMD_READ address c0.q.userLevel (by decide) hd hlv
  have hrc1 : rc1 = _ := hb
  have hrs1 : rs1 = _ := hS
  have hC := client_answers_seed env rc1.1 sv direct seed hd hseed (by rw [hrc1]; rfl) (by rw [hrc1]; rfl) (by rw [hrc1]; rfl)
    (by rw [hrc1]; exact hcount) (by rw [hrc1]; exact hck)
  have hrc2 : rc2 = _ := hC
  obtain ⟨k1, k2, k3, k4, k5, k6⟩ := server_accepts_key env rs1.n cl count direct CMD_READ address (env.skey seed) sd2 (by decide) hd hk16 ha
    (by rw [hrs1]) (by rw [hrs1]; exact hs0.subs) (by rw [hrs1]; exact hsec) (by rw [hrs1]; exact hp) (by rw [hrs1]) (by rw [hrs1])
    (by rw [hrs1]) (by rw [hrs1]; exact hs0.busy) (by rw [hrs1]) (by rw [hrs1]; exact hs0.sd) (by rw [hrs1])
  refine ⟨by rw [hrc1], by rw [hrs1], ?_, by rw [hrc2], ?_, k3⟩
  · rw [hrc2, hrc1]
    simp [qDm14, cWaitSeed, openDm14, hkeys, CMD_READ]
  · rw [k1, hrs1]

-- ------------------------------------------------------------------------------------------------ back to back
/-- a client and a server (without seed/key) between transactions -/
structure Ready (c s : Node) : Prop where
  cClean : Clean c
  sClean : Clean s
  sec : s.seedSecurity = false
  hp : s.hasProceed = true
  hk : s.s.hasKey = false
  lvl : c.q.userLevel < 2 ^ 16

/-- one transaction: what the client asks and what the serving application answers -/
inductive Tx where
  | read (direct address count osize : Nat) (signed raw : Bool) (d ack : List Nat) (seed seed' e x : Nat)
  | write (direct address osize : Nat) (values dd : List Nat) (seed seed' e x : Nat)

def Tx.ok : Tx → Prop
  | .read direct address count _ _ _ d ack _ _ _ _ =>
      count ≠ 0 ∧ address < 2 ^ 32 ∧ direct < 16 ∧ d.length ≤ 255 ∧ 1 ≤ ack.length
  | .write direct address osize values _ _ _ _ _ =>
      (∀ v ∈ values, v < 256 ^ osize) ∧ values ≠ [] ∧ values.length * osize ≤ 255 ∧ address < 2 ^ 32 ∧ direct < 16

/-- the two nodes after the transaction (the PDU flow of `c17_read_short` / `c17_read_long` / `c17_write`) -/
def Tx.run (env : Env) (cl sv : Nat) (c s : Node) : Tx → Node × Node
  | .read direct address count osize signed raw d ack seed seed' e x =>
    let rq := deliver env s seed true ⟨PGN_DM14, cl, openDm14 count direct CMD_READ address c.q.userLevel⟩
    let rp := respond rq.n seed' true d e x
    let sEnd := if d.length ≤ 7 then rp.1 else (deliver env rp.1 seed true ⟨PGN_DM16, cl, ack⟩).n
    ((clientRead env c sv direct address count osize signed raw (srvDm16 d)).1,
     (deliver env sEnd seed true ⟨PGN_DM14, cl, closeDm14 direct address⟩).n)
  | .write direct address osize values dd seed seed' e x =>
    let rq := deliver env s seed true ⟨PGN_DM14, cl, openDm14 values.length direct CMD_WRITE address c.q.userLevel⟩
    let rp := respond rq.n seed' true dd e x
    let rw := deliver env rp.1 seed true ⟨PGN_DM16, cl, cliDm16 (valuesToBytes osize values)⟩
    ((clientWrite env c sv direct address osize values).1,
     (deliver env (respondResume rw.n false).1 seed true ⟨PGN_DM14, cl, closeDm14 direct address⟩).n)

theorem cfg_clientRead (env : Env) (c : Node) (sv a b n o : Nat) (f g : Bool) (dm : List Nat) :
    cfg (clientRead env c sv a b n o f g dm).1 = cfg c := by
  simp only [clientRead, cfg_clientResume, cfg_deliver, cfg_read]

theorem cfg_clientWrite (env : Env) (c : Node) (sv a b o : Nat) (v : List Nat) : cfg (clientWrite env c sv a b o v).1 = cfg c := by
  simp only [clientWrite, cfg_clientResume, cfg_deliver, cfg_write]

theorem tx_preserves_ready (env : Env) (cl sv : Nat) (c s : Node) (t : Tx) (h : Ready c s) (ht : t.ok) :
    Ready (t.run env cl sv c s).1 (t.run env cl sv c s).2 := by
  obtain ⟨hc, hs, hsec, hp, hk, hlv⟩ := h
  have hcfg_s : ∀ m : Node, cfg m = cfg s → m.seedSecurity = false ∧ m.hasProceed = true ∧ m.s.hasKey = false := by
    intro m hm; simp only [cfg, Prod.mk.injEq] at hm; exact ⟨by rw [hm.1, hsec], by rw [hm.2.1, hp], by rw [hm.2.2.1, hk]⟩
  have hcfg_c : ∀ m : Node, cfg m = cfg c → m.q.userLevel < 2 ^ 16 := by
    intro m hm; simp only [cfg, Prod.mk.injEq] at hm; rw [hm.2.2.2.2]; exact hlv
  cases t with
  | read direct address count osize signed raw d ack seed seed' e x =>
    obtain ⟨t1, t2, t3, t4, t5⟩ := ht
    have hC := hcfg_c _ (cfg_clientRead env c sv direct address count osize signed raw (srvDm16 d))
    by_cases h7 : d.length ≤ 7
    · have R := c17_read_short env c s hc hs hsec hp hk cl sv direct address count osize signed raw d seed seed' e x t1 t2 t3 hlv h7
      dsimp only at R
      obtain ⟨S1, S2, S3⟩ := hcfg_s (Tx.run env cl sv c s (.read direct address count osize signed raw d ack seed seed' e x)).2 (by
        simp only [Tx.run, h7, if_true, cfg_deliver, cfg_respond])
      simp only [Tx.run, h7, if_true] at S1 S2 S3 ⊢
      exact ⟨R.2.2.2.2.2.1, R.2.2.2.2.2.2.2.2, S1, S2, S3, hC⟩
    · have R := c17_read_long env c s hc hs hsec hp hk cl sv direct address count osize signed raw d ack seed seed' e x t1 t2 t3 hlv
        (by omega) t4 t5
      dsimp only at R
      obtain ⟨S1, S2, S3⟩ := hcfg_s (Tx.run env cl sv c s (.read direct address count osize signed raw d ack seed seed' e x)).2 (by
        simp only [Tx.run, h7, if_false, cfg_deliver, cfg_respond])
      simp only [Tx.run, h7, if_false] at S1 S2 S3 ⊢
      exact ⟨R.2.2.2.2.2.2.2.1, R.2.2.2.2.2.2.2.2.2.2, S1, S2, S3, hC⟩
  | write direct address osize values dd seed seed' e x =>
    obtain ⟨t1, t2, t3, t4, t5⟩ := ht
    have hC := hcfg_c _ (cfg_clientWrite env c sv direct address osize values)
    have R := c17_write env c s hc hs hsec hp hk cl sv direct address osize values dd seed seed' e x t1 t2 t3 t4 t5 hlv
    dsimp only at R
    obtain ⟨S1, S2, S3⟩ := hcfg_s (Tx.run env cl sv c s (.write direct address osize values dd seed seed' e x)).2 (by
      simp only [Tx.run, cfg_deliver, cfg_respond, cfg_respondResume])
    simp only [Tx.run] at S1 S2 S3 ⊢
    exact ⟨R.2.2.2.2.2.2.2.2.1, R.2.2.2.2.2.2.2.2.2.2.2, S1, S2, S3, hC⟩

/-- C17, SEVERAL TRANSACTIONS BACK TO BACK on the same objects (any mix of reads of 1..255 bytes and writes, any
    addresses, sizes, signedness): by induction every transaction starts from clean nodes, so each one returns / stores
    exactly its data (`c17_read_short`, `c17_read_long`, `c17_write` apply to each) and the pair is clean at the end -/
theorem c17_back_to_back (env : Env) (cl sv : Nat) (ts : List Tx) (c s : Node) (h : Ready c s) (hts : ∀ t ∈ ts, t.ok) :
    Ready (ts.foldl (fun cs t => t.run env cl sv cs.1 cs.2) (c, s)).1 (ts.foldl (fun cs t => t.run env cl sv cs.1 cs.2) (c, s)).2 := by
  induction ts generalizing c s with
  | nil => exact h
  | cons t ts ih =>
    simp only [List.foldl_cons]
    exact ih _ _ (tx_preserves_ready env cl sv c s t h (hts t (by simp))) (fun u hu => hts u (by simp [hu]))

/-- NON-VACUITY: the initial nodes are `Ready`, and a concrete read of two 16-bit objects runs as stated -/
example : Ready {} { hasProceed := true } := ⟨⟨rfl, rfl, rfl, rfl, rfl, rfl, rfl, rfl, rfl, rfl, rfl⟩, ⟨rfl, rfl, rfl, rfl, rfl, rfl, rfl, rfl, rfl, rfl, rfl⟩, rfl, rfl, rfl, by decide⟩
example : (clientRead ⟨id, id⟩ {} 0x42 1 0x92000003 2 2 true false (srvDm16 [0x34, 0x12, 0xFF, 0xFF])).2.2 = .values [0x1234, -1] := by decide

end J1939.Props.C17

/-! ## whole transaction with seed/key -/
namespace J1939.Props.C17
open J1939 J1939.Gen J1939.Dm14

/-- the client's side of a read with seed/key: as `clientRead`, with the seed DM15 answered in between -/
def clientReadSK (env : Env) (c0 : Node) (sv direct address count osize : Nat) (signed raw : Bool) (seed : Nat) (dm16 : List Nat) :
    Node × List Out × Ret :=
  let r1 := Dm14.read c0 sv direct address count osize signed raw
  let r1b := deliver env r1.1 0 true ⟨PGN_DM15, sv, seedDm15 direct seed⟩
  let r2 := deliver env r1b.n 0 true ⟨PGN_DM15, sv, proceedDm15 direct count⟩
  let r3 := deliver env r2.n 0 true ⟨PGN_DM16, sv, dm16⟩
  let r4 := deliver env r3.n 0 true ⟨PGN_DM15, sv, opcDm15 direct⟩
  let r5 := clientResume r4.n false
  (r5.1, r1.2.1 ++ r1b.outs ++ r2.outs ++ r3.outs ++ r4.outs, r5.2)

theorem client_read_sk (env : Env) (c0 : Node) (hcl : Clean c0) (hck : c0.q.hasKey = true) (sv direct address count osize : Nat)
    (signed raw : Bool) (seed : Nat) (dm16 d : List Nat)
    (hc : count ≠ 0) (ha : address < 2 ^ 32) (hd : direct < 16) (hs : seed < 2 ^ 16) (h16 : 1 ≤ dm16.length)
    (hpay : Py.slice dm16 1 (min (Py.idx dm16 0) (dm16.length - 1) + 1) = d) :
    (clientReadSK env c0 sv direct address count osize signed raw seed dm16).2.1 =
      [.tx PGN_DM14 (sv &&& 0xFF) 6 (openDm14 count direct CMD_READ address c0.q.userLevel),
       .tx PGN_DM14 (sv &&& 0xFF) 6 (openDm14 count direct CMD_READ address (env.ckey seed)),
       .tx PGN_DM14 (sv &&& 0xFF) 6 (closeDm14 direct address)] ∧
    (clientReadSK env c0 sv direct address count osize signed raw seed dm16).2.2 = readResult osize signed raw d ∧
    Clean (clientReadSK env c0 sv direct address count osize signed raw seed dm16).1 := by
  have hb := client_read_begin c0 hcl sv direct address count osize signed raw hc ha
  have hseedstep := client_answers_seed env (cWaitSeed c0 sv direct address count osize signed raw) sv direct seed hd hs rfl rfl rfl
    (by show count ≠ 0; exact hc) (by show c0.q.hasKey = true; exact hck)
  obtain ⟨c1, c2, c3, _⟩ := client_read env c0 hcl sv direct address count osize signed raw dm16 d hc ha hd h16 hpay
  unfold clientReadSK
  unfold clientRead at c1 c2 c3
  rw [hb] at c1 c2 c3 ⊢
  dsimp only at c1 c2 c3 ⊢
  rw [hseedstep]
  dsimp only
  refine ⟨?_, c2, c3⟩
  simp only [List.cons_append, List.nil_append] at c1 ⊢
  have : (deliver env (cWaitSeed c0 sv direct address count osize signed raw) 0 true ⟨PGN_DM15, sv, proceedDm15 direct count⟩).outs ++
      ((deliver env (deliver env (cWaitSeed c0 sv direct address count osize signed raw) 0 true ⟨PGN_DM15, sv, proceedDm15 direct count⟩).n 0 true ⟨PGN_DM16, sv, dm16⟩).outs ++
       (deliver env (deliver env (deliver env (cWaitSeed c0 sv direct address count osize signed raw) 0 true ⟨PGN_DM15, sv, proceedDm15 direct count⟩).n 0 true ⟨PGN_DM16, sv, dm16⟩).n 0 true ⟨PGN_DM15, sv, opcDm15 direct⟩).outs)
      = [.tx PGN_DM14 (sv &&& 0xFF) 6 (closeDm14 direct address)] := by
    have := c1
    simp only [List.cons.injEq, true_and] at this
    simpa [List.append_assoc] using this
  simp only [List.append_assoc] at this ⊢
  rw [this]
  simp [qDm14, cWaitSeed, openDm14, CMD_READ]

/-- C17, READ of 1..7 bytes WITH seed/key, the whole transaction (any seed, key functions that agree on it): the
    handshake of `c17_seedkey_handshake`, then exactly the run of `c17_read_short`; the application is consulted once,
    after the right key, with key and seed; the client's call returns exactly the served bytes; both nodes are clean -/
theorem c17_read_short_seedkey (env : Env) (c0 s0 : Node) (hc0 : Clean c0) (hs0 : Clean s0) (hsec : s0.seedSecurity = true)
    (hk : s0.s.hasKey = true) (hp : s0.hasProceed = true) (hck : c0.q.hasKey = true)
    (cl sv direct address count osize seed sd2 sd3 e x : Nat) (signed raw : Bool) (d : List Nat)
    (hcount : count ≠ 0) (ha : address < 2 ^ 32) (hd : direct < 16) (hlv : c0.q.userLevel < 2 ^ 16) (hseed : seed < 2 ^ 16)
    (hkeys : env.ckey seed = env.skey seed) (hk16 : env.skey seed < 2 ^ 16) (hd7 : d.length ≤ 7) :
    let rs1 := deliver env s0 seed true ⟨PGN_DM14, cl, openDm14 count direct CMD_READ address c0.q.userLevel⟩
    let rs2 := deliver env rs1.n sd2 true ⟨PGN_DM14, cl, openDm14 count direct CMD_READ address (env.skey seed)⟩
    let rp := respond rs2.n sd3 true d e x
    let rc := clientReadSK env c0 sv direct address count osize signed raw seed (srvDm16 d)
    let rz := deliver env rp.1 sd2 true ⟨PGN_DM14, cl, closeDm14 direct address⟩
    rs1.outs = [.tx PGN_DM15 (cl &&& 0xFF) 6 (seedDm15 direct seed)] ∧
    rs2.outs = [.proceed CMD_READ address (direct % 2) 8 count (env.skey seed) cl c0.q.userLevel seed, .notify] ∧
    rp.2 = ([.tx PGN_DM15 (cl &&& 0xFF) 6 (proceedDm15 direct count), .tx PGN_DM16 (cl &&& 0xFF) 7 (srvDm16 d),
             .tx PGN_DM15 (cl &&& 0xFF) 6 (opcDm15 direct)], .none) ∧
    rc.2.1 = [.tx PGN_DM14 (sv &&& 0xFF) 6 (openDm14 count direct CMD_READ address c0.q.userLevel),
              .tx PGN_DM14 (sv &&& 0xFF) 6 (openDm14 count direct CMD_READ address (env.skey seed)),
              .tx PGN_DM14 (sv &&& 0xFF) 6 (closeDm14 direct address)] ∧
    rc.2.2 = readResult osize signed raw d ∧ Clean rc.1 ∧
    rz.outs = [] ∧ rz.err = none ∧ Clean rz.n := by
  intro rs1 rs2 rp rc rz
  have hS := server_sends_seed env s0 hs0 hsec hk seed cl count direct CMD_READ address c0.q.userLevel (by decide) hd hlv
  have hrs1 : rs1 = _ := hS
  obtain ⟨k1, k2, k3, k4, k5, k6⟩ := server_accepts_key env rs1.n cl count direct CMD_READ address (env.skey seed) sd2 (by decide) hd hk16 ha
    (by rw [hrs1]) (by rw [hrs1]; exact hs0.subs) (by rw [hrs1]; exact hsec) (by rw [hrs1]; exact hp) (by rw [hrs1]) (by rw [hrs1])
    (by rw [hrs1]) (by rw [hrs1]; exact hs0.busy) (by rw [hrs1]) (by rw [hrs1]; exact hs0.sd) (by rw [hrs1])
  obtain ⟨p1, p2, p3, p4, p5, p6, p7, p8, p9, p10, p11⟩ := server_read_short rs2.n cl count direct sd3 k3 d hd7 e x
  obtain ⟨c1, c2, c3⟩ := client_read_sk env c0 hc0 hck sv direct address count osize signed raw seed (srvDm16 d) d hcount ha hd hseed
    (by simp [srvDm16]) (srvDm16_payload d (by omega))
  have hclosing : Closing rp.1 cl := ⟨p2, Or.inl p3, p4, p5, p6, p7, p8⟩
  have haddr : ∀ ad, rp.1.s.address = some ad → ad = Py.slice (closeDm14 direct address) 2 6 := by
    intro ad h
    rw [p10, k5] at h
    simp only [Option.some.injEq] at h
    rw [← h, closeDm14, open_slice]
  obtain ⟨z1, z2, z3, z4, z5, z6, z7, z8, z9, z10, z11⟩ := server_closing env rp.1 cl sd2 true (closeDm14 direct address) hclosing
    (by simp [closeDm14, openDm14, toBytesLE_length]) haddr
  refine ⟨by rw [hrs1], by rw [k1, hrs1], p1, by rw [c1, hkeys], c2, c3, z1, z2, ?_⟩
  exact clean_of _ z3 (by rw [z11, p9, k4, hrs1]; exact hs0.q) z4 z5 (by rw [z11, p9, k4, hrs1]; exact hs0.qd)
    (by rw [z11, p9, k4, hrs1]; exact hs0.qe) z8 z6 z7 z9 z10

/-- the client's side of a write with seed/key: as `clientWrite`, with the seed DM15 answered in between -/
def clientWriteSK (env : Env) (c0 : Node) (sv direct address osize : Nat) (values : List Nat) (seed : Nat) : Node × List Out × Ret :=
  let r1 := Dm14.write c0 sv direct address values osize
  let r1b := deliver env r1.1 0 true ⟨PGN_DM15, sv, seedDm15 direct seed⟩
  let r2 := deliver env r1b.n 0 true ⟨PGN_DM15, sv, proceedDm15 direct values.length⟩
  let r4 := deliver env r2.n 0 true ⟨PGN_DM15, sv, opcDm15 direct⟩
  let r5 := clientResume r4.n false
  (r5.1, r1.2.1 ++ r1b.outs ++ r2.outs ++ r4.outs, r5.2)

theorem client_write_sk (env : Env) (c0 : Node) (hcl : Clean c0) (hck : c0.q.hasKey = true) (sv direct address osize : Nat)
    (values : List Nat) (seed : Nat) (hv : ∀ v ∈ values, v < 256 ^ osize) (hc : values ≠ []) (ha : address < 2 ^ 32)
    (hd : direct < 16) (hs : seed < 2 ^ 16) :
    (clientWriteSK env c0 sv direct address osize values seed).2.1 =
      [.tx PGN_DM14 (sv &&& 0xFF) 6 (openDm14 values.length direct CMD_WRITE address c0.q.userLevel),
       .tx PGN_DM14 (sv &&& 0xFF) 6 (openDm14 values.length direct CMD_WRITE address (env.ckey seed)),
       .tx PGN_DM16 (sv &&& 0xFF) 6 (cliDm16 (valuesToBytes osize values)),
       .tx PGN_DM14 (sv &&& 0xFF) 6 (closeDm14 direct address)] ∧
    (clientWriteSK env c0 sv direct address osize values seed).2.2 = .none ∧
    Clean (clientWriteSK env c0 sv direct address osize values seed).1 := by
  have hb := client_write_begin c0 hcl sv direct address osize values hv ha
  have hlen0 : values.length ≠ 0 := by
    intro h; exact hc (List.eq_nil_of_length_eq_zero h)
  have hseedstep := client_answers_seed env (cWaitSeedW c0 sv direct address osize values) sv direct seed hd hs rfl rfl rfl
    (by show values.length ≠ 0; exact hlen0) (by show c0.q.hasKey = true; exact hck)
  obtain ⟨c1, c2, c3, _⟩ := client_write env c0 hcl sv direct address osize values hv hc ha hd
  unfold clientWriteSK
  unfold clientWrite at c1 c2 c3
  rw [hb] at c1 c2 c3 ⊢
  dsimp only at c1 c2 c3 ⊢
  rw [hseedstep]
  dsimp only
  refine ⟨?_, c2, c3⟩
  simp only [List.cons_append, List.nil_append] at c1 ⊢
  have : (deliver env (cWaitSeedW c0 sv direct address osize values) 0 true ⟨PGN_DM15, sv, proceedDm15 direct values.length⟩).outs ++
       (deliver env (deliver env (cWaitSeedW c0 sv direct address osize values) 0 true ⟨PGN_DM15, sv, proceedDm15 direct values.length⟩).n 0 true ⟨PGN_DM15, sv, opcDm15 direct⟩).outs
      = [.tx PGN_DM16 (sv &&& 0xFF) 6 (cliDm16 (valuesToBytes osize values)), .tx PGN_DM14 (sv &&& 0xFF) 6 (closeDm14 direct address)] := by
    have := c1
    simp only [List.cons.injEq, true_and] at this
    simpa [List.append_assoc] using this
  rw [this]
  simp [qDm14, cWaitSeedW, openDm14, CMD_WRITE]
/-- C17, WRITE WITH seed/key, the whole transaction (any seed, key functions that agree on it): the handshake of
    `c17_seedkey_handshake`, then exactly the run of `c17_write`; the application is consulted once, after the right key,
    with key and seed; it receives exactly the bytes of the client's values; both nodes are clean afterwards -/
theorem c17_write_seedkey (env : Env) (c0 s0 : Node) (hc0 : Clean c0) (hs0 : Clean s0) (hsec : s0.seedSecurity = true)
    (hk : s0.s.hasKey = true) (hp : s0.hasProceed = true) (hck : c0.q.hasKey = true)
    (cl sv direct address osize seed sd2 sd3 e x : Nat) (values dd : List Nat)
    (hv : ∀ v ∈ values, v < 256 ^ osize) (hne : values ≠ []) (hbytes : values.length * osize ≤ 255)
    (ha : address < 2 ^ 32) (hd : direct < 16) (hlv : c0.q.userLevel < 2 ^ 16) (hseed : seed < 2 ^ 16)
    (hkeys : env.ckey seed = env.skey seed) (hk16 : env.skey seed < 2 ^ 16) :
    let rs1 := deliver env s0 seed true ⟨PGN_DM14, cl, openDm14 values.length direct CMD_WRITE address c0.q.userLevel⟩
    let rs2 := deliver env rs1.n sd2 true ⟨PGN_DM14, cl, openDm14 values.length direct CMD_WRITE address (env.skey seed)⟩
    let rp := respond rs2.n sd3 true dd e x
    let rc := clientWriteSK env c0 sv direct address osize values seed
    let rw := deliver env rp.1 sd2 true ⟨PGN_DM16, cl, cliDm16 (valuesToBytes osize values)⟩
    let rr := respondResume rw.n false
    let rz := deliver env rr.1 sd2 true ⟨PGN_DM14, cl, closeDm14 direct address⟩
    rs1.outs = [.tx PGN_DM15 (cl &&& 0xFF) 6 (seedDm15 direct seed)] ∧
    rs2.outs = [.proceed CMD_WRITE address (direct % 2) 8 values.length (env.skey seed) cl c0.q.userLevel seed, .notify] ∧
    rp.2 = ([.tx PGN_DM15 (cl &&& 0xFF) 6 (proceedDm15 direct values.length)], .blocked) ∧
    rw.outs = [.tx PGN_DM15 (cl &&& 0xFF) 6 (opcDm15 direct)] ∧ rw.err = none ∧
    rr.2 = .data (valuesToBytes osize values) ∧
    rc.2.1 = [.tx PGN_DM14 (sv &&& 0xFF) 6 (openDm14 values.length direct CMD_WRITE address c0.q.userLevel),
              .tx PGN_DM14 (sv &&& 0xFF) 6 (openDm14 values.length direct CMD_WRITE address (env.skey seed)),
              .tx PGN_DM16 (sv &&& 0xFF) 6 (cliDm16 (valuesToBytes osize values)),
              .tx PGN_DM14 (sv &&& 0xFF) 6 (closeDm14 direct address)] ∧
    rc.2.2 = .none ∧ Clean rc.1 ∧
    rz.outs = [] ∧ rz.err = none ∧ Clean rz.n := by
  intro rs1 rs2 rp rc rw rr rz
  have hS := server_sends_seed env s0 hs0 hsec hk seed cl values.length direct CMD_WRITE address c0.q.userLevel (by decide) hd hlv
  have hrs1 : rs1 = _ := hS
  obtain ⟨k1, k2, k3, k4, k5, k6⟩ := server_accepts_key env rs1.n cl values.length direct CMD_WRITE address (env.skey seed) sd2 (by decide) hd hk16 ha
    (by rw [hrs1]) (by rw [hrs1]; exact hs0.subs) (by rw [hrs1]; exact hsec) (by rw [hrs1]; exact hp) (by rw [hrs1]) (by rw [hrs1])
    (by rw [hrs1]) (by rw [hrs1]; exact hs0.busy) (by rw [hrs1]) (by rw [hrs1]; exact hs0.sd) (by rw [hrs1])
  obtain ⟨p1, p2, p3, p4, p5, p6, p7, p8, p9, p10, p11⟩ := server_write_begin rs2.n cl values.length direct sd3 k3 dd e x
  obtain ⟨w1, w2, w3, w4, w5, w6⟩ := server_write_data env rp.1 cl direct sd2 true (valuesToBytes osize values)
    (by rw [valuesToBytes_length]; exact hbytes) p2 p3 p4 p5 p6 p7 p8 p9
  obtain ⟨c1, c2, c3⟩ := client_write_sk env c0 hc0 hck sv direct address osize values seed hv hne ha hd hseed
  have haddr : ∀ ad, rr.1.s.address = some ad → ad = Py.slice (closeDm14 direct address) 2 6 := by
    intro ad h
    rw [w6, p11, k5] at h
    simp only [Option.some.injEq] at h
    rw [← h, closeDm14, open_slice]
  obtain ⟨z1, z2, z3, z4, z5, z6, z7, z8, z9, z10, z11⟩ := server_closing env rr.1 cl sd2 true (closeDm14 direct address) w4
    (by simp [closeDm14, openDm14, toBytesLE_length]) haddr
  refine ⟨by rw [hrs1], by rw [k1, hrs1], p1, w1, w2, w3, by rw [c1, hkeys], c2, c3, z1, z2, ?_⟩
  exact clean_of _ z3 (by rw [z11, w5, p10, k4, hrs1]; exact hs0.q) z4 z5 (by rw [z11, w5, p10, k4, hrs1]; exact hs0.qd)
    (by rw [z11, w5, p10, k4, hrs1]; exact hs0.qe) z8 z6 z7 z9 z10
/-- C17, READ of 8..255 bytes WITH seed/key, the whole transaction: the handshake, then exactly the run of `c17_read_long`
    (multi-packet DM16, the transport's acknowledgement, operation-complete); the client's call returns exactly the served
    bytes; both nodes are clean afterwards -/
theorem c17_read_long_seedkey (env : Env) (c0 s0 : Node) (hc0 : Clean c0) (hs0 : Clean s0) (hsec : s0.seedSecurity = true)
    (hk : s0.s.hasKey = true) (hp : s0.hasProceed = true) (hck : c0.q.hasKey = true)
    (cl sv direct address count osize seed sd2 sd3 e x : Nat) (signed raw : Bool) (d ack : List Nat)
    (hcount : count ≠ 0) (ha : address < 2 ^ 32) (hd : direct < 16) (hlv : c0.q.userLevel < 2 ^ 16) (hseed : seed < 2 ^ 16)
    (hkeys : env.ckey seed = env.skey seed) (hk16 : env.skey seed < 2 ^ 16)
    (hd8 : 7 < d.length) (hd255 : d.length ≤ 255) (hack : 1 ≤ ack.length) :
    let rs1 := deliver env s0 seed true ⟨PGN_DM14, cl, openDm14 count direct CMD_READ address c0.q.userLevel⟩
    let rs2 := deliver env rs1.n sd2 true ⟨PGN_DM14, cl, openDm14 count direct CMD_READ address (env.skey seed)⟩
    let rp := respond rs2.n sd3 true d e x
    let ra := deliver env rp.1 sd2 true ⟨PGN_DM16, cl, ack⟩
    let rc := clientReadSK env c0 sv direct address count osize signed raw seed (srvDm16 d)
    let rz := deliver env ra.n sd2 true ⟨PGN_DM14, cl, closeDm14 direct address⟩
    rs1.outs = [.tx PGN_DM15 (cl &&& 0xFF) 6 (seedDm15 direct seed)] ∧
    rs2.outs = [.proceed CMD_READ address (direct % 2) 8 count (env.skey seed) cl c0.q.userLevel seed, .notify] ∧
    rp.2 = ([.tx PGN_DM15 (cl &&& 0xFF) 6 (proceedDm15 direct count), .tx PGN_DM16 (cl &&& 0xFF) 7 (srvDm16 d)], .none) ∧
    ra.outs = [.tx PGN_DM15 (cl &&& 0xFF) 6 (opcDm15 direct)] ∧ ra.err = none ∧
    rc.2.1 = [.tx PGN_DM14 (sv &&& 0xFF) 6 (openDm14 count direct CMD_READ address c0.q.userLevel),
              .tx PGN_DM14 (sv &&& 0xFF) 6 (openDm14 count direct CMD_READ address (env.skey seed)),
              .tx PGN_DM14 (sv &&& 0xFF) 6 (closeDm14 direct address)] ∧
    rc.2.2 = readResult osize signed raw d ∧ Clean rc.1 ∧
    rz.outs = [] ∧ rz.err = none ∧ Clean rz.n := by
  intro rs1 rs2 rp ra rc rz
  have hS := server_sends_seed env s0 hs0 hsec hk seed cl count direct CMD_READ address c0.q.userLevel (by decide) hd hlv
  have hrs1 : rs1 = _ := hS
  obtain ⟨k1, k2, k3, k4, k5, k6⟩ := server_accepts_key env rs1.n cl count direct CMD_READ address (env.skey seed) sd2 (by decide) hd hk16 ha
    (by rw [hrs1]) (by rw [hrs1]; exact hs0.subs) (by rw [hrs1]; exact hsec) (by rw [hrs1]; exact hp) (by rw [hrs1]) (by rw [hrs1])
    (by rw [hrs1]) (by rw [hrs1]; exact hs0.busy) (by rw [hrs1]) (by rw [hrs1]; exact hs0.sd) (by rw [hrs1])
  obtain ⟨p1, p2, p3, p4, p5, p6, p7, p8, p9, p10, p11⟩ := server_read_long rs2.n cl count direct sd3 k3 d hd8 e x
  obtain ⟨a1, a2, a3, a4, a5⟩ := server_read_ack env rp.1 cl direct sd2 true ack hack p2 p3 p4 p5 p6 p7 p8 p9
  obtain ⟨c1, c2, c3⟩ := client_read_sk env c0 hc0 hck sv direct address count osize signed raw seed (srvDm16 d) d hcount ha hd hseed
    (by simp [srvDm16]) (srvDm16_payload d hd255)
  have haddr : ∀ ad, ra.n.s.address = some ad → ad = Py.slice (closeDm14 direct address) 2 6 := by
    intro ad h
    rw [a5, p11, k5] at h
    simp only [Option.some.injEq] at h
    rw [← h, closeDm14, open_slice]
  obtain ⟨z1, z2, z3, z4, z5, z6, z7, z8, z9, z10, z11⟩ := server_closing env ra.n cl sd2 true (closeDm14 direct address) a3
    (by simp [closeDm14, openDm14, toBytesLE_length]) haddr
  refine ⟨by rw [hrs1], by rw [k1, hrs1], by rw [p1, srvDm16_long d hd8], a1, a2, by rw [c1, hkeys], c2, c3, z1, z2, ?_⟩
  exact clean_of _ z3 (by rw [z11, a4, p10, k4, hrs1]; exact hs0.q) z4 z5 (by rw [z11, a4, p10, k4, hrs1]; exact hs0.qd)
    (by rw [z11, a4, p10, k4, hrs1]; exact hs0.qe) z8 z6 z7 z9 z10

end J1939.Props.C17
