/-
  Line-protocol interpreter: one operation per input line, canonical output lines.
  (Mathlib-free so that it builds as an executable.)
-/
import J1939.Gen.Eval
namespace J1939.Driver
open J1939 J1939.Gen

def hexVal (c : Char) : Option Nat :=
  if '0' ≤ c ∧ c ≤ '9' then some (c.toNat - '0'.toNat)
  else if 'a' ≤ c ∧ c ≤ 'f' then some (c.toNat - 'a'.toNat + 10)
  else if 'A' ≤ c ∧ c ≤ 'F' then some (c.toNat - 'A'.toNat + 10)
  else none

/-- bytes written as a comma separated decimal list in brackets: `[1,2,255]` (elements may exceed 255) -/
def parseList (s : String) : Option (List Nat) :=
  if s.startsWith "[" && s.endsWith "]" then
    let inner : String := ((s.drop 1).dropEnd 1).toString
    if inner.isEmpty then some [] else
    (inner.splitOn ",").mapM (fun t => t.toNat?)
  else none

def parseArg (s : String) : Option Arg :=
  if s.startsWith "[" then (parseList s).map Arg.l else s.toNat?.map Arg.n

structure St where
  dummy : Nat := 0

def step (st : St) (line : String) : St × List String :=
  match (line.trimAscii.toString.splitOn " ").filter (· ≠ "") with
  | [] => (st, [])
  | "eval" :: name :: args =>
    match args.mapM parseArg with
    | none => (st, ["bad-args"])
    | some as =>
      match evalUnit name as with
      | some r => (st, [r])
      | none => (st, ["bad-unit"])
  | "units" :: _ => (st, [" ".intercalate unitNames])
  | _ => (st, ["bad-op"])

partial def loop (h : IO.FS.Stream) (out : IO.FS.Stream) (st : St) : IO Unit := do
  let line ← h.getLine
  if line.isEmpty then return ()
  let (st', outs) := step st line
  for o in outs do out.putStrLn o
  loop h out st'

end J1939.Driver
