/-
  Line-protocol interpreter: one operation per input line, canonical output lines.
  (Mathlib-free so that it builds as an executable.)
-/
import J1939.Gen.Eval
import J1939.Model.Ecu
import J1939.Model.Dm1
import J1939.Model.Dll21
import J1939.Model.Ca
import J1939.Model.Dll22
import J1939.Model.Listener
import J1939.DriverDm14
import J1939.Model.Pre21
import J1939.Model.Pre22
namespace J1939.Driver
open J1939 J1939.Gen

def hexVal (c : Char) : Option Nat :=
  if '0' ≤ c ∧ c ≤ '9' then some (c.toNat - '0'.toNat)
  else if 'a' ≤ c ∧ c ≤ 'f' then some (c.toNat - 'a'.toNat + 10)
  else if 'A' ≤ c ∧ c ≤ 'F' then some (c.toNat - 'A'.toNat + 10)
  else none

/-- bytes written as a comma separated decimal list in brackets: `[1,2,255]` (elements may exceed 255) -/
def parseList (s : String) : Option (List Nat) :=
  if s.startsWith "[" && s.endsWith "]" then
    let inner : String := ((s.drop 1).dropEnd 1).toString
    if inner.isEmpty then some [] else
    (inner.splitOn ",").mapM (fun t => t.toNat?)
  else none

def parseArg (s : String) : Option Arg :=
  if s.startsWith "[" then (parseList s).map Arg.l else s.toNat?.map Arg.n

open J1939.Ecu in
structure EcuSt where
  core  : Ecu.Core := {}
  preds : List (List Nat) := []      -- predicate k accepts the destinations listed
deriving Inhabited

structure D21St where
  cfg : Dll21.Cfg := {}
  st  : Dll21.St := {}
  acc : List Nat := []               -- destinations a listener / CA accepts
deriving Inhabited

structure D22St where
  cfg : Dll22.Cfg := {}
  st  : Dll22.St := {}
  acc : List Nat := []
deriving Inhabited

structure St where
  now  : Nat := 1000000000          -- virtual clock (µs); starts at 1000 s so that deadlines are never 0
  ecus : List EcuSt := []
  d21  : List D21St := []
  cas  : List Ca.Ca := []
  d22  : List D22St := []
  m14  : List Driver14.NodeSt := []
deriving Inhabited

def showOptNat : Option Nat → String
  | none => "-"
  | some v => toString v

def showOptInt : Option Int → String
  | none => "-"
  | some v => toString v

def showOut22 : Dll22.Out → String
  | .tx f => s!"tx {f.id} {if f.ext then 1 else 0} {showList f.data}"
  | .notify prio pgn sa dest data => s!"notify {prio} {pgn} {sa} {dest} {showList data}"
  | .claim sa data => s!"claim {sa} {showList data}"
  | .request sa dest data => s!"request {sa} {dest} {showList data}"
  | .wake => "wake"

def showBools (l : List Bool) : String := String.ofList (l.map fun b => if b then '1' else '0')

def dumpD22 (s : Dll22.St) : String :=
  let r := ",".intercalate (s.rcv.map fun (k, b) =>
    s!"{k}:{b.pgn}:{b.session}:{b.messageSize}:{b.numSegments}:{b.nextPacket}:{showOptNat b.ctsBorder}:{showOptNat b.maxRec}:{b.deadline}:{b.src}:{b.dest}:{showList b.data}")
  let t := ",".intercalate (s.snd.map fun (k, b) =>
    s!"{k}:{b.pgn}:{b.priority}:{b.session}:{b.messageSize}:{b.numSegments}:{b.state}:{b.deadline}:{b.src}:{b.dest}:{b.next}:{showOptInt b.waitOn}:{b.data.length}")
  let m := ",".intercalate (s.mpg.map fun (k, b) =>
    s!"{k}:{b.deadline}:{b.fill}:" ++ "/".intercalate (b.cpgs.map fun c => s!"{c.priority}.{c.cpgn}.{showList c.data}"))
  s!"rcv {r} | snd {t} | mpg {m} | pools {showBools s.rtsPool} {showBools s.bamPool}"

def withD22 (st : St) (i : Nat) (f : D22St → D22St × List String) : St × List String :=
  match st.d22[i]? with
  | none => (st, ["bad-stack"])
  | some e => let (e', out) := f e; ({ st with d22 := st.d22.set i e' }, out)

def resLines22 (r : Dll22.Res) : List String :=
  r.outs.map showOut22 ++ (match r.err with | some e => [s!"exc {e.name}"] | none => [])

def showFrame (f : Frame) : String := s!"tx {f.id} {showList f.data}"

def withCa (st : St) (i : Nat) (f : Ca.Ca → Ca.Ca × List String) : St × List String :=
  match st.cas[i]? with
  | none => (st, ["bad-ca"])
  | some c => let (c', out) := f c; ({ st with cas := st.cas.set i c' }, out)

def showOut21 : Dll21.Out → String
  | .tx f => s!"tx {f.id} {showList f.data}"
  | .notify prio pgn sa dest data => s!"notify {prio} {pgn} {sa} {dest} {showList data}"
  | .claim sa data => s!"claim {sa} {showList data}"
  | .request sa dest data => s!"request {sa} {dest} {showList data}"
  | .wake => "wake"

def dumpD21 (s : Dll21.St) : String :=
  let r := ",".intercalate (s.rcv.map fun (k, b) =>
    s!"{k}:{b.pgn}:{b.messageSize}:{b.numPackages}:{b.nextPacket}:{b.maxCmdt}:{showOptNat b.maxRec}:{b.deadline}:{b.src}:{b.dest}:{showList b.data}")
  let t := ",".intercalate (s.snd.map fun (k, b) =>
    s!"{k}:{b.pgn}:{b.priority}:{b.messageSize}:{b.numPackages}:{b.state}:{b.deadline}:{b.src}:{b.dest}:{b.next}:{showOptInt b.waitOn}:{showList b.data}")
  s!"rcv {r} | snd {t}"

def withD21 (st : St) (i : Nat) (f : D21St → D21St × List String) : St × List String :=
  match st.d21[i]? with
  | none => (st, ["bad-stack"])
  | some e => let (e', out) := f e; ({ st with d21 := st.d21.set i e' }, out)

def resLines (r : Dll21.Res) : List String :=
  r.outs.map showOut21 ++ (match r.err with | some e => [s!"exc {e.name}"] | none => [])


open J1939.Ecu

def parseAddr (s : String) : Option AddrSpec :=
  if s == "n" then some .none
  else if s.startsWith "i" then (s.drop 1).toString.toNat?.map AddrSpec.int
  else if s.startsWith "p" then (s.drop 1).toString.toNat?.map AddrSpec.pred
  else none

def showAddr : AddrSpec → String
  | .none => "n"
  | .int a => s!"i{a}"
  | .pred p => s!"p{p}"

def parseTOp (s : String) : Option TOp :=
  match s.splitOn ":" with
  | ["A", d, cb, ck] => do some (TOp.add (← d.toNat?) (← cb.toNat?) (← ck.toNat?))
  | ["R", cb] => do some (TOp.remove (← cb.toNat?))
  | ["S", cb, a] => do some (TOp.sub (← cb.toNat?) (← parseAddr a))
  | ["U", cb] => do some (TOp.unsub (← cb.toNat?))
  | ["T", dt] => do some (TOp.busy (← dt.toNat?))
  | _ => none

def showObs : Obs → String
  | .call ev => s!"call {ev.cb} {ev.cookie}"
  | .deliver cb prio pgn sa data => s!"deliver {cb} {prio} {pgn} {sa} {showList data}"

def showSleep : Sleep → String
  | .spin => "spin"
  | .woken => "woken"
  | .sleep d => s!"sleep {d}"

def EcuSt.accept (e : EcuSt) (p dest : Nat) : Bool := (e.preds.getD p []).contains dest

def dumpCore (c : Core) : String :=
  let ts := ",".intercalate (c.timers.map fun t => s!"{t.cb}:{t.delta}:{t.deadline}:{t.cookie}")
  let ss := ",".intercalate (c.subs.map fun d => s!"{d.cb}:{showAddr d.addr}")
  s!"timers {ts} | subs {ss} | wake {c.wake}"

def withEcu (st : St) (i : Nat) (f : EcuSt → EcuSt × List String) : St × List String :=
  match st.ecus[i]? with
  | none => (st, ["bad-stack"])
  | some e => let (e', out) := f e; ({ st with ecus := st.ecus.set i e' }, out)

def setAt {α} [Inhabited α] (l : List α) (k : Nat) (v : α) : List α :=
  if k < l.length then l.set k v else l ++ List.replicate (k - l.length) default ++ [v]

def triples : List Nat → List Dm1.Dtc
  | a :: b :: c :: rest => { spn := a, fmi := b, oc := c } :: triples rest
  | _ => []

def step (st : St) (line : String) : St × List String :=
  match (line.trimAscii.toString.splitOn " ").filter (· ≠ "") with
  | [] => (st, [])
  | "eval" :: name :: args =>
    match args.mapM parseArg with
    | none => (st, ["bad-args"])
    | some as =>
      match evalUnit name as with
      | some r => (st, [r])
      | none => (st, ["bad-unit"])
  | "units" :: _ => (st, [" ".intercalate unitNames])
  | ["ecu.new"] => ({ st with ecus := st.ecus ++ [{}] }, [])
  | ["adv", dt] => match dt.toNat? with
    | some d => ({ st with now := st.now + d }, [])
    | none => (st, ["bad-args"])
  | "cbdef" :: i :: k :: ret :: ops =>
    match i.toNat?, k.toNat?, ret.toNat?, ops.mapM parseTOp with
    | some i, some k, some r, some ops =>
      withEcu st i fun e => ({ e with core := { e.core with cbs := setAt e.core.cbs k { ret := r != 0, ops } } }, [])
    | _, _, _, _ => (st, ["bad-args"])
  | ["preddef", i, k, l] =>
    match i.toNat?, k.toNat?, parseList l with
    | some i, some k, some l => withEcu st i fun e => ({ e with preds := setAt e.preds k l }, [])
    | _, _, _ => (st, ["bad-args"])
  | ["timer.add", i, d, cb, ck] =>
    match i.toNat?, d.toNat?, cb.toNat?, ck.toNat? with
    | some i, some d, some cb, some ck => withEcu st i fun e => ({ e with core := e.core.addTimer st.now d cb ck }, [])
    | _, _, _, _ => (st, ["bad-args"])
  | ["timer.remove", i, cb] =>
    match i.toNat?, cb.toNat? with
    | some i, some cb => withEcu st i fun e => ({ e with core := e.core.removeTimer cb }, [])
    | _, _ => (st, ["bad-args"])
  | ["sub", i, cb, a] =>
    match i.toNat?, cb.toNat?, parseAddr a with
    | some i, some cb, some a => withEcu st i fun e => ({ e with core := e.core.subscribe cb a }, [])
    | _, _, _ => (st, ["bad-args"])
  | ["unsub", i, cb] =>
    match i.toNat?, cb.toNat? with
    | some i, some cb => withEcu st i fun e => ({ e with core := e.core.unsubscribe cb }, [])
    | _, _ => (st, ["bad-args"])
  | ["ecu.tick", i] =>
    match i.toNat? with
    | some i =>
      match st.ecus[i]? with
      | none => (st, ["bad-stack"])
      | some e =>
        let (c, clk, sl, obs) := e.core.pass st.now st.now (st.now + Gen.Const.Ecu.idle_wakeup)
        ({ st with now := clk, ecus := st.ecus.set i { e with core := c } }, obs.map showObs ++ [showSleep sl])
    | none => (st, ["bad-args"])
  | ["ecu.notify", i, prio, pgn, sa, dest, data] =>
    match i.toNat?, prio.toNat?, pgn.toNat?, sa.toNat?, dest.toNat?, parseList data with
    | some i, some prio, some pgn, some sa, some dest, some data =>
      match st.ecus[i]? with
      | none => (st, ["bad-stack"])
      | some e =>
        let (c, clk, obs) := e.core.notifySubscribers e.accept st.now prio pgn sa dest data
        ({ st with now := clk, ecus := st.ecus.set i { e with core := c } }, obs.map showObs)
    | _, _, _, _, _, _ => (st, ["bad-args"])
  | ["ecu.acceptable", i, dest] =>
    match i.toNat?, dest.toNat? with
    | some i, some dest => withEcu st i fun e => (e, [if e.core.isAcceptable dest then "True" else "False"])
    | _, _ => (st, ["bad-args"])
  | ["ecu.dump", i] =>
    match i.toNat? with
    | some i => withEcu st i fun e => (e, [dumpCore e.core])
    | none => (st, ["bad-args"])
  | ["d21.new", mx, cmdt, bam, acc] =>
    match mx.toNat?, bam.toNat?, parseList acc with
    | some mx, some bam, some acc =>
      let cfg : Dll21.Cfg := { maxCmdt := mx, cmdtInterval := cmdt.toNat?, bamInterval := bam }
      ({ st with d21 := st.d21 ++ [{ cfg, acc }] }, [])
    | _, _, _ => (st, ["bad-args"])
  | ["d21.accept", i, acc] =>
    match i.toNat?, parseList acc with
    | some i, some acc => withD21 st i fun e => ({ e with acc }, [])
    | _, _ => (st, ["bad-args"])
  | ["d21.send", i, dp, pf, ps, prio, sa, data] =>
    match i.toNat?, dp.toNat?, pf.toNat?, ps.toNat?, prio.toNat?, sa.toNat?, parseList data with
    | some i, some dp, some pf, some ps, some prio, some sa, some data => withD21 st i fun e =>
        let (r, ret) := Dll21.sendPgn e.cfg e.st st.now dp pf ps prio sa data
        ({ e with st := r.st }, resLines r ++ [if ret then "ret True" else "ret False"])
    | _, _, _, _, _, _, _ => (st, ["bad-args"])
  | ["d21.rx", i, cid, data] =>
    match i.toNat?, cid.toNat?, parseList data with
    | some i, some cid, some data => withD21 st i fun e =>
        let r := Dll21.notify e.cfg e.st st.now (fun d => e.acc.contains d) cid data
        ({ e with st := r.st }, resLines r)
    | _, _, _ => (st, ["bad-args"])
  | ["d21.tick", i] =>
    match i.toNat? with
    | some i => withD21 st i fun e =>
        let (r, nw) := Dll21.tick e.cfg e.st st.now
        ({ e with st := r.st }, resLines r ++ (if r.err.isNone then [s!"wakeup {(nw : Int) - st.now}"] else []))
    | none => (st, ["bad-args"])
  | ["d21.tickpre", i, k, cid, data] =>
    match i.toNat?, k.toNat?, cid.toNat?, parseList data with
    | some i, some k, some cid, some data => withD21 st i fun e =>
        let r := Pre21.tickPre e.cfg (fun d => e.acc.contains d) e.st st.now k (cid, data)
        ({ e with st := r.st },
         r.outsBefore.map showOut21 ++ r.rxOuts.map showOut21 ++ (match r.rxErr with | some x => [s!"rxexc {x.name}"] | none => []) ++
         r.outsAfter.map showOut21 ++
         (match r.err with | some x => [s!"exc {x.name}"] | none => [s!"wakeup {(r.wakeup : Int) - st.now}"]))
    | _, _, _, _ => (st, ["bad-args"])
  | ["d21.dump", i] =>
    match i.toNat? with
    | some i => withD21 st i fun e => (e, [dumpD21 e.st])
    | none => (st, ["bad-args"])
  | ["ca.new", name, pref, bypass] =>
    match name.toNat?, bypass.toNat? with
    | some name, some b => ({ st with cas := st.cas ++ [Ca.new (Name.ofValue name) pref.toNat? (b != 0)] }, [])
    | _, _ => (st, ["bad-args"])
  | ["ca.claim", i] =>
    match i.toNat? with
    | some i => withCa st i fun c => let (c', fs, d) := Ca.claimAsync c; (c', fs.map showFrame ++ [s!"timer {d}"])
    | none => (st, ["bad-args"])
  | ["ca.rxclaim", i, sa, data] =>
    match i.toNat?, sa.toNat?, parseList data with
    | some i, some sa, some data => withCa st i fun c => let (c', fs) := Ca.processAddressClaim c sa data; (c', fs.map showFrame)
    | _, _, _ => (st, ["bad-args"])
  | ["ca.request", i, sa, dest, data] =>
    match i.toNat?, sa.toNat?, dest.toNat?, parseList data with
    | some i, some sa, some dest, some data => withCa st i fun c =>
        (c, match Ca.processRequest c sa dest data with
            | none => ["exc IndexError"]
            | some .nothing => []
            | some (.claim f) => [showFrame f]
            | some (.callbacks a b p) => [s!"reqcb {a} {b} {p}"])
    | _, _, _, _ => (st, ["bad-args"])
  | ["ca.sendmsg", i, prio, pgn, data] =>
    match i.toNat?, prio.toNat?, pgn.toNat?, parseList data with
    | some i, some prio, some pgn, some data => withCa st i fun c =>
        (c, match Ca.sendMessage c prio pgn data with | none => ["exc RuntimeError"] | some f => [showFrame f])
    | _, _, _, _ => (st, ["bad-args"])
  | ["ca.sendpgn", i, dp, pf, ps, prio, data] =>
    match i.toNat?, dp.toNat?, pf.toNat?, ps.toNat?, prio.toNat?, parseList data with
    | some i, some dp, some pf, some ps, some prio, some data => withCa st i fun c =>
        (c, match Ca.sendPgnSa c with
            | none => ["exc RuntimeError"]
            | some sa => [s!"pgn {dp} {pf} {ps} {prio} {sa} {showList data}"])
    | _, _, _, _, _, _ => (st, ["bad-args"])
  | ["ca.sendreq", i, dp, pgn, dest] =>
    match i.toNat?, dp.toNat?, pgn.toNat?, dest.toNat? with
    | some i, some dp, some pgn, some dest => withCa st i fun c =>
        (c, match Ca.sendRequest c pgn dest with
            | none => ["exc RuntimeError"]
            | some (sa, pf, ps, prio, data) => [s!"pgn {dp} {pf} {ps} {prio} {sa} {showList data}"])
    | _, _, _, _ => (st, ["bad-args"])
  | ["ca.acceptable", i, dest] =>
    match i.toNat?, dest.toNat? with
    | some i, some dest => withCa st i fun c => (c, [if Ca.messageAcceptable c dest then "True" else "False"])
    | _, _ => (st, ["bad-args"])
  | ["ca.dump", i] =>
    match i.toNat? with
    | some i => withCa st i fun c =>
        (c, [s!"ca {c.state} {c.announced} {showOptNat c.addr} {showOptNat (Ca.deviceAddress c)}"])
    | none => (st, ["bad-args"])
  | ["listener", a, b, c, d] =>
    match a.toNat?, b.toNat?, c.toNat?, d.toNat? with
    | some a, some b, some c, some d => (st, [if Listener.forwards (a != 0) (b != 0) (c != 0) (d != 0) then "forward" else "drop"])
    | _, _, _, _ => (st, ["bad-args"])
  | ["d22.new", mx, cmdt, bam, acc] =>
    match mx.toNat?, bam.toNat?, parseList acc with
    | some mx, some bam, some acc =>
      let cfg : Dll22.Cfg := { maxCmdt := mx, cmdtInterval := cmdt.toNat?, bamInterval := bam }
      ({ st with d22 := st.d22 ++ [{ cfg, acc }] }, [])
    | _, _, _ => (st, ["bad-args"])
  | ["d22.send", i, dp, pf, ps, prio, sa, data, tl, ff] =>
    match i.toNat?, dp.toNat?, pf.toNat?, ps.toNat?, prio.toNat?, sa.toNat?, parseList data, tl.toNat?, ff.toNat? with
    | some i, some dp, some pf, some ps, some prio, some sa, some data, some tl, some ff => withD22 st i fun e =>
        let (r, ret) := Dll22.sendPgn e.cfg e.st st.now dp pf ps prio sa data tl ff
        ({ e with st := r.st }, resLines22 r ++ (if r.err.isNone then [if ret then "ret True" else "ret False"] else []))
    | _, _, _, _, _, _, _, _, _ => (st, ["bad-args"])
  | ["d22.rx", i, cid, data] =>
    match i.toNat?, cid.toNat?, parseList data with
    | some i, some cid, some data => withD22 st i fun e =>
        let r := Dll22.notify e.cfg e.st st.now (fun d => e.acc.contains d) cid data
        ({ e with st := r.st }, resLines22 r)
    | _, _, _ => (st, ["bad-args"])
  | ["d22.tickpre", i, k, cid, data] =>
    match i.toNat?, k.toNat?, cid.toNat?, parseList data with
    | some i, some k, some cid, some data => withD22 st i fun e =>
        let r := Pre22.tickPre e.cfg (fun d => e.acc.contains d) e.st st.now k (cid, data)
        ({ e with st := r.st },
         r.outsBefore.map showOut22 ++ r.rxOuts.map showOut22 ++ (match r.rxErr with | some x => [s!"rxexc {x.name}"] | none => []) ++
         r.outsAfter.map showOut22 ++
         (match r.err with | some x => [s!"exc {x.name}"] | none => [s!"wakeup {(r.wakeup : Int) - st.now}"]))
    | _, _, _, _ => (st, ["bad-args"])
  | ["d22.tick", i] =>
    match i.toNat? with
    | some i => withD22 st i fun e =>
        let (r, nw) := Dll22.tick e.cfg e.st st.now
        ({ e with st := r.st }, resLines22 r ++ (if r.err.isNone then [s!"wakeup {(nw : Int) - st.now}"] else []))
    | none => (st, ["bad-args"])
  | ["d22.dump", i] =>
    match i.toNat? with
    | some i => withD22 st i fun e => (e, [dumpD22 e.st])
    | none => (st, ["bad-args"])
  | ["dm1.send", pgn, lamps, flat] =>
    match pgn.toNat?, parseList lamps, parseList flat with
    | some pgn, some lamps, some flat =>
      let r := Dm1.send pgn lamps (triples flat)
      (st, [s!"pgn {r.dp} {r.pf} {r.ps} {r.prio} {showList r.data}"])
    | _, _, _ => (st, ["bad-args"])
  | ["dm1.parse", data] =>
    match parseList data with
    | some data =>
      match Dm1.parse data with
      | none => (st, ["reject"])
      | some (lamps, dtcs) => (st, [s!"lamps {showList lamps} dtcs {showList (dtcs.flatMap fun d => [d.spn, d.fmi, d.oc])}"])
    | none => (st, ["bad-args"])
  | toks =>
    if (toks.headD "").startsWith "m14." then
      let (m, o) := Driver14.step st.m14 toks
      ({ st with m14 := m }, o)
    else (st, ["bad-op"])

partial def loop (h : IO.FS.Stream) (out : IO.FS.Stream) (st : St) : IO Unit := do
  let line ← h.getLine
  if line.isEmpty then return ()
  let (st', outs) := step st line
  for o in outs do out.putStrLn o
  loop h out st'

end J1939.Driver
