import J1939.Props.C19
#print axioms J1939.Props.C19.dm15_error_form
#print axioms J1939.Props.C19.status_of_hdr
#print axioms J1939.Props.C19.node_busy_eta
#print axioms J1939.Props.C19.sParse_intruder
#print axioms J1939.Props.C19.sParse_intruder_busy
#print axioms J1939.Props.C19.quiet_noop
#print axioms J1939.Props.C19.fListen_intruder
#print axioms J1939.Props.C19.runCb_intruder
#print axioms J1939.Props.C19.notifyLoop_intruder
#print axioms J1939.Props.C19.c19_intruder_noop
#print axioms J1939.Props.C19.c19_intruders_noop
#print axioms J1939.Props.C19.c19_unsubscribed_silent
#print axioms J1939.Props.C19.c19_intx_after_open
#print axioms J1939.Props.C19.c19_intx_closing
#print axioms J1939.Props.C19.c19_intx_read_long
#print axioms J1939.Props.C19.c19_intx_write_wait
