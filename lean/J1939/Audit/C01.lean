import J1939.Props.C01
#print axioms J1939.Props.C01.c01_short_frame
#print axioms J1939.Props.C01.c01_single_frame_rx
#print axioms J1939.Props.C01.c01_segments_roundtrip
#print axioms J1939.Props.C01.c01_originator_frames
#print axioms J1939.Props.C01.c01_originator_announce
#print axioms J1939.Props.C01.c01_responder_delivers
#print axioms J1939.Props.C01.c01_ack_reported
#print axioms J1939.Props.C01.c01_bam_originator_frames
#print axioms J1939.Props.C01.c01_bam_end_to_end
#print axioms J1939.Props.C01.c01_tp_dispatch
#print axioms J1939.Props.C01.c01_rtscts_round
#print axioms J1939.Props.C01.c01_rtscts_end_to_end
#print axioms J1939.Props.C01.hash21_arith
#print axioms J1939.Props.C01.c01_session_key_injective
