import J1939.Props.C14
#print axioms J1939.Props.C14.c14_request_codec
#print axioms J1939.Props.C14.c14_request_frame
#print axioms J1939.Props.C14.c14_dispatch
#print axioms J1939.Props.C14.c14_dll_passes_request
#print axioms J1939.Props.C14.mask_req
#print axioms J1939.Props.C14.c14_request_end_to_end
