import J1939.Props.C16
#print axioms J1939.Props.C16.c16_dtc_roundtrip
#print axioms J1939.Props.C16.c16_dtc_layout
#print axioms J1939.Props.C16.c16_lamps
#print axioms J1939.Props.C16.c16_lamp_positions
#print axioms J1939.Props.C16.c16_dm1_length
#print axioms J1939.Props.C16.c16_dm1_roundtrip
#print axioms J1939.Props.C16.c16_dm1_send
#print axioms J1939.Props.C16.c16_dm22_layout
#print axioms J1939.Props.C16.c16_dm22_addressing
#print axioms J1939.Props.C16.c16_stop_send
