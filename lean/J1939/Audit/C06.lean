import J1939.Props.C06
#print axioms J1939.Props.C06.c06_no_early_delivery
#print axioms J1939.Props.C06.c06_exact_when_complete
#print axioms J1939.Props.C06.c06_rcv_giveup
#print axioms J1939.Props.C06.c06_snd_giveup
#print axioms J1939.Props.C06.c06_timeouts
#print axioms J1939.Props.C06.c06_followup
#print axioms J1939.Props.C06.c06_22_out_of_order_ignored
#print axioms J1939.Props.C06.c06_22_eom_exact_or_nothing
#print axioms J1939.Props.C06.c06_22_rcv_giveup
#print axioms J1939.Props.C06.c06_22_snd_giveup
#print axioms J1939.Props.C06.c06_22_timeouts
#print axioms J1939.Props.C06.c06_send_wakes
#print axioms J1939.Props.C06.c06_22_send_wakes
