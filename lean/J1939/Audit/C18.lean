import J1939.Props.C18
#print axioms J1939.Props.C18.sDm15_outs_tx
#print axioms J1939.Props.C18.sParse_outs_dm15
#print axioms J1939.Props.C18.sParse_keeps_sec
#print axioms J1939.Props.C18.c18_key_gate
#print axioms J1939.Props.C18.c18_handlers_send_no_data
#print axioms J1939.Props.C18.c18_respond_guard
#print axioms J1939.Props.C18.errorDm15_is_built
#print axioms J1939.Props.C18.error_roundtrip
#print axioms J1939.Props.C18.status_failed
#print axioms J1939.Props.C18.c18_error_queued
#print axioms J1939.Props.C18.c18_error_raised
#print axioms J1939.Props.C18.c18_refusal_codes
#print axioms J1939.Props.C18.c18_refusal_recovers
#print axioms J1939.Props.C18.c18_timeout
#print axioms J1939.Props.C18.c18_client_recovers
#print axioms J1939.Props.C18.c18_next_call_accepted
