import J1939.Props.C07
#print axioms J1939.Props.C07.c07_pass_ok
#print axioms J1939.Props.C07.c07_wf_init
#print axioms J1939.Props.C07.wf_set_snd
#print axioms J1939.Props.C07.wf_set_rcv
#print axioms J1939.Props.C07.wf_erase_rcv
#print axioms J1939.Props.C07.c07_wf_notify
#print axioms J1939.Props.C07.c07_wf_sendPgn
#print axioms J1939.Props.C07.c07_timeouts_bounded
#print axioms J1939.Props.C07.c07_22_wf_init
#print axioms J1939.Props.C07.c07_22_wf_notify
#print axioms J1939.Props.C07.c07_22_wf_sendPgn
#print axioms J1939.Props.C07.c07_22_pass_ok
#print axioms J1939.Props.C07.c07_22_history_wf
#print axioms J1939.Props.C07.c07_22_never_raises_never_spins
