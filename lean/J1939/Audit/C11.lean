import J1939.Props.C11
#print axioms J1939.Props.C11.c11_lut
#print axioms J1939.Props.C11.c11_frame_bounds
#print axioms J1939.Props.C11.c11_fill_inv
#print axioms J1939.Props.C11.c11_key_separates
#print axioms J1939.Props.C11.hdr_decode
#print axioms J1939.Props.C11.c11_unpack_pack
#print axioms J1939.Props.C11.c11_padding_form
#print axioms J1939.Props.C11.mpgPlace_outs_mono
#print axioms J1939.Props.C11.c11_deadline_placed
#print axioms J1939.Props.C11.c11_deadline_served
