import J1939.Props.C09
#print axioms J1939.Props.C09.c09_first_cts
#print axioms J1939.Props.C09.c09_rts_busy
#print axioms J1939.Props.C09.c09_dt_complete
#print axioms J1939.Props.C09.c09_dt_cts
#print axioms J1939.Props.C09.c09_dt_plain
#print axioms J1939.Props.C09.c09_cts_window
#print axioms J1939.Props.C09.c09_hold
#print axioms J1939.Props.C09.c09_no_dt_while_waiting
#print axioms J1939.Props.C09.c09_window_obeyed
#print axioms J1939.Props.C09.c09_bam_spacing
#print axioms J1939.Props.C09.c09_bam_first
#print axioms J1939.Props.C09.c09_22_first_cts
#print axioms J1939.Props.C09.c09_22_rts_busy
#print axioms J1939.Props.C09.c09_22_dt_grant
#print axioms J1939.Props.C09.c09_22_global_source_ignored
#print axioms J1939.Props.C09.c09_22_cts_window
#print axioms J1939.Props.C09.c09_22_bam_spacing
