import J1939.Props.C13
#print axioms J1939.Props.C13.states_distinct
#print axioms J1939.Props.C13.c13_guard
#print axioms J1939.Props.C13.c13_request_for_claim_from_null
#print axioms J1939.Props.C13.c13_source_address
#print axioms J1939.Props.C13.c13_inv_new
#print axioms J1939.Props.C13.c13_inv_claimAsync
#print axioms J1939.Props.C13.c13_inv_addressClaim
#print axioms J1939.Props.C13.c13_normal_has_address
#print axioms J1939.Props.C13.c13_range_new
#print axioms J1939.Props.C13.c13_range_claimAsync
#print axioms J1939.Props.C13.c13_range_addressClaim
#print axioms J1939.Props.C13.c13_never_at_null
#print axioms J1939.Props.C13.c13_no_address_is_null
#print axioms J1939.Props.C13.c13_only_claim_traffic
