import J1939.Props.C15
#print axioms J1939.Props.C15.c15_id_parse_compose
#print axioms J1939.Props.C15.c15_id_fields
#print axioms J1939.Props.C15.c15_id_compose_parse
#print axioms J1939.Props.C15.c15_id_layout
#print axioms J1939.Props.C15.c15_pgn_value
#print axioms J1939.Props.C15.c15_pgn_fields_of_value
#print axioms J1939.Props.C15.c15_pgn_from_message_id
#print axioms J1939.Props.C15.c15_pdu_classification
#print axioms J1939.Props.C15.c15_name_value_ofValue
#print axioms J1939.Props.C15.c15_name_ofValue_value
#print axioms J1939.Props.C15.c15_name_ofFields_roundtrip
#print axioms J1939.Props.C15.c15_name_layout
#print axioms J1939.Props.C15.c15_name_bytes_le
#print axioms J1939.Props.C15.c15_name_bytes_ofBytes
#print axioms J1939.Props.C15.c15_name_ofBytes_bytes
