import J1939.Props.C12
#print axioms J1939.Props.C12.c12_wf_init
#print axioms J1939.Props.C12.c12_wf_ops
#print axioms J1939.Props.C12.c12_wf_addTimer
#print axioms J1939.Props.C12.c12_wf_removeTimer
#print axioms J1939.Props.C12.c12_wf_pass
#print axioms J1939.Props.C12.c12_not_early
#print axioms J1939.Props.C12.c12_wake_covers
#print axioms J1939.Props.C12.c12_periodic_next
#print axioms J1939.Props.C12.c12_remove_timer_all
#print axioms J1939.Props.C12.c12_unsubscribe_all
#print axioms J1939.Props.C12.c12_not_called_when_unregistered
#print axioms J1939.Props.C12.c12_one_shot_removed
#print axioms J1939.Props.C12.c12_every_due_timer_called
#print axioms J1939.Props.C12.c12_independence
#print axioms J1939.Props.C12.c12_ops_wake
