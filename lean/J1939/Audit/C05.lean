import J1939.Props.C05
#print axioms J1939.Props.C05.c05_foreign_noop
#print axioms J1939.Props.C05.c05_bystander
#print axioms J1939.Props.C05.c05_ca_needs_address
#print axioms J1939.Props.C05.c05_ca_accepts
#print axioms J1939.Props.C05.c05_match_rule
#print axioms J1939.Props.C05.notifyLoop_exact
#print axioms J1939.Props.C05.c05_delivery_rule
#print axioms J1939.Props.C05.c05_broadcast_all
#print axioms J1939.Props.C05.c05_ecu_gate
#print axioms J1939.Props.C05.c05_listener_flags
#print axioms J1939.Props.C05.c05_22_foreign_noop
#print axioms J1939.Props.C05.c05_22_bystander
#print axioms J1939.Props.C05.c05_22_pdu2_is_broadcast
#print axioms J1939.Props.C05.c05_22_tp_delivery_keeps_destination
