import J1939.Props.C02
#print axioms J1939.Props.C02.c02_refusal_pure
#print axioms J1939.Props.C02.poolGet_none_iff
#print axioms J1939.Props.C02.poolGet_some
#print axioms J1939.Props.C02.c02_accept_takes_one
#print axioms J1939.Props.C02.processCm_keeps_pools
#print axioms J1939.Props.C02.processDt_keeps_pools
#print axioms J1939.Props.C02.c02_notify_keeps_pools
#print axioms J1939.Props.C02.c02_capacity
#print axioms J1939.Props.C02.c02_chunks_get
#print axioms J1939.Props.C02.c02_chunks_concat
#print axioms J1939.Props.C02.ins4
#print axioms J1939.Props.C02.dt22_data
#print axioms J1939.Props.C02.c02_built_frame_is_segframe
#print axioms J1939.Props.C02.c02_reception_exact
