import J1939.Props.C02
#print axioms J1939.Props.C02.c02_refusal_pure
#print axioms J1939.Props.C02.poolGet_none_iff
#print axioms J1939.Props.C02.poolGet_some
#print axioms J1939.Props.C02.c02_accept_takes_one
#print axioms J1939.Props.C02.c02_notify_keeps_pools
#print axioms J1939.Props.C02.c02_capacity
