import J1939.Props.C04
#print axioms J1939.Props.C04.c04_foreign_claim_ignored
#print axioms J1939.Props.C04.c04_keeps_against_higher
#print axioms J1939.Props.C04.c04_same_name_ignored
#print axioms J1939.Props.C04.c04_loser
#print axioms J1939.Props.C04.c04_claim_progress
#print axioms J1939.Props.C04.c04_contender_value_exact
#print axioms J1939.Props.C04.c04_veto_period
