import J1939.Props.C03
#print axioms J1939.Props.C03.c03_cm_id
#print axioms J1939.Props.C03.c03_cm_data
#print axioms J1939.Props.C03.c03_cm_ref
#print axioms J1939.Props.C03.c03_dt_layout
#print axioms J1939.Props.C03.c03_decode_rts
#print axioms J1939.Props.C03.c03_decode_cts
#print axioms J1939.Props.C03.c03_responder_decodes
#print axioms J1939.Props.C03.c03_timing_envelope
