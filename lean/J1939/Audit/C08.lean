import J1939.Props.C08
#print axioms J1939.Props.C08.keys_set_of_get?
#print axioms J1939.Props.C08.c08_rx_keeps_snd_keys
#print axioms J1939.Props.C08.tickRcv_stale
#print axioms J1939.Props.C08.tickSnd_present
#print axioms J1939.Props.C08.mem_keys_iff_get?
#print axioms J1939.Props.C08.c08_pre_pass_ok
#print axioms J1939.Props.C08.c08_pass_keeps_live_sessions
#print axioms J1939.Props.C08.c08_tickSnd_keeps_rcv
#print axioms J1939.Props.C08.c08_history_wf
#print axioms J1939.Props.C08.c08_thread_never_dies
#print axioms J1939.Props.C08.c08_rx_change_wakes
#print axioms J1939.Props.C08.c08_22_rx_keeps_snd_keys
#print axioms J1939.Props.C08.tickSnd_frame
#print axioms J1939.Props.C08.tickMpg_frame
#print axioms J1939.Props.C08.afterRcv_ok
#print axioms J1939.Props.C08.c08_22_pre_pass_ok
