import J1939.Props.C10
#print axioms J1939.Props.C10.c10_refusal_iff_busy
#print axioms J1939.Props.C10.c10_accept_occupies
#print axioms J1939.Props.C10.c10_short_never_refused
#print axioms J1939.Props.C10.c10_dt_keeps_snd
#print axioms J1939.Props.C10.c10_rts_bam_keep_snd
#print axioms J1939.Props.C10.c10_tickRcv_keeps_snd
#print axioms J1939.Props.C10.c10_abort_releases
#print axioms J1939.Props.C10.sendPgn_get?_other
#print axioms J1939.Props.C10.c10_send_keeps_other_pairs
#print axioms J1939.Props.C10.c10_22_deleted_returns_number
#print axioms J1939.Props.C10.c10_22_cons_init
#print axioms J1939.Props.C10.c10_22_conservation
#print axioms J1939.Props.C10.c10_22_used_iff_held
#print axioms J1939.Props.C10.c10_22_idle_means_full
