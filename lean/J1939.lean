-- Root of the `J1939` library: model, generated leaves, property theorems and audits.
import J1939.Model.Basic
import J1939.Gen.Const
import J1939.Gen.Codec
import J1939.Gen.Eval
import J1939.Driver
