#!/venv/bin/python
"""Differential self-validation of the translator: every generated Lean definition is evaluated by the Lean
driver and the original Python function / expression is evaluated on the same arguments.  Any difference is a
translator failure (a broken tie), not a property violation."""
import sys, os, json, random, subprocess, importlib, logging
logging.disable(logging.CRITICAL)

HERE = os.path.dirname(os.path.abspath(__file__))
ROOT = os.path.dirname(HERE)
GEN = os.path.join(ROOT, 'lean', 'J1939', 'Gen')
DRIVER = os.path.join(ROOT, 'lean', '.lake', 'build', 'bin', 'driver')


def fmt_list(l):
    return "[" + ",".join(str(int(x)) for x in l) + "]"


class Cap:
    def __init__(self):
        self.frames = []
        self.pgns = []

    def send_message(self, can_id, ext, data, fd_format=False):
        self.frames.append((can_id, ext, list(data), fd_format))

    def send_pgn(self, dp, pf, ps, prio, *rest, **kw):
        self.pgns.append((dp, pf, ps, prio) + tuple(rest))


class Oracle:
    def __init__(self, repo, meta, consts):
        sys.path.insert(0, repo)
        import j1939  # noqa
        self.j = j1939
        self.meta = meta
        self.consts = consts

    def cls(self, mod, name):
        return getattr(sys.modules[mod], name)

    def struct_str(self, lean, obj):
        sa = self.meta['struct_attrs'][lean]
        return lean + " " + " ".join(str(int(getattr(obj, a))) for a in sa['attrs'])

    def make_struct(self, lean, vals):
        sa = self.meta['struct_attrs'][lean]
        c = self.cls(sa['mod'], sa['cls'])
        o = object.__new__(c)
        for a, v in zip(sa['attrs'], vals):
            setattr(o, a, v)
        return o

    def instance(self, mod, name, cap):
        c = self.cls(mod, name)
        noop = lambda *a, **k: None
        if name in ('J1939_21', 'J1939_22'):
            return c(cap.send_message, noop, noop, 1, None, None, noop)
        if name == 'DtcLamp':
            return c()
        o = object.__new__(c)
        o._ca = cap
        o._ecu = cap
        return o

    def show(self, ret, v, cap):
        if ret == 'nat' or ret == 'int':
            return str(int(v))
        if ret == 'bool':
            return "True" if v else "False"
        if ret == 'list':
            return fmt_list(v)
        if ret == 'frame':
            (cid, ext, data, fd), = cap.frames
            return f"frame {cid} {1 if ext else 0} {1 if fd else 0} {fmt_list(data)}"
        if ret == 'pgnreq':
            (dp, pf, ps, prio, data), = cap.pgns
            return f"pgn {dp} {pf} {ps} {prio} {fmt_list(data)}"
        if ret in self.meta['struct_attrs']:
            return self.struct_str(ret, v)
        if ret.startswith('Option '):
            return "none" if v is None else self.show(ret[7:], v, cap)
        if ret.startswith('('):
            return "(" + " ".join(str(int(x)) for x in v) + ")"
        raise RuntimeError(f"show {ret}")

    def run(self, uname, args):
        """args: python values in the order of the unit's lean params (struct params given as lists of field values)"""
        u = self.meta['units'][uname]
        py = u['py']
        cap = Cap()
        kind = py['kind']
        ret = u['ret']
        if kind == 'ctor':
            c = self.cls(py['pymod'], py['pycls'])
            kw = {p: (list(a) if isinstance(a, list) else a) for p, a in zip(py['pyparams'], args)}
            try:
                o = c(**kw)
            except ValueError:
                return "none"
            return self.show(ret, o, cap)
        if kind == 'getter':
            lean = u['params'][0][1]
            o = self.make_struct(lean, args[0])
            return self.show(ret, getattr(o, py['pyattr']), cap)
        if kind == 'from_mid':
            mid = self.make_struct('MessageId', args[0])
            p = self.j.ParameterGroupNumber()
            p.from_message_id(mid)
            return self.show(ret, p, cap)
        inst = self.instance(py['pymod'], py['pycls'], cap)
        ns = py['nself']
        for a, v in zip(py['pyparams'][:ns], args[:ns]):
            setattr(inst, a, list(v) if isinstance(v, list) else v)
        rest = [list(a) if isinstance(a, list) else a for a in args[ns:]]
        if kind == 'method':
            m = py['pymethod']
            if m.startswith('__') and not m.endswith('__'):
                m = '_' + py['pycls'] + m
            v = getattr(inst, m)(*rest)
            return self.show(ret, v, cap)
        if kind == 'expr':
            g = dict(vars(sys.modules[py['pymod']]))
            g['self'] = inst
            loc = dict(zip(py['pyparams'][ns:], rest))
            # objects (e.g. a PGN) are passed as field lists
            for (pn, pt), a in zip(u['params'][ns:], args[ns:]):
                if pt in self.meta['struct_attrs']:
                    loc[py['pyparams'][ns:][[x[0] for x in u['params'][ns:]].index(pn)]] = self.make_struct(pt, a)
            for pn, val in list(loc.items()):
                if '_' in pn:
                    a, b = pn.split('_', 1)
                    if f"{a}['{b}']" in py['pyexpr']:
                        loc.setdefault(a, {})
                        if isinstance(loc[a], dict):
                            loc[a][b] = val
            v = eval(py['pyexpr'], g, loc)
            return self.show(ret, v, cap)
        raise RuntimeError(kind)


BOUND = [0, 1, 2, 3, 4, 5, 7, 8, 15, 16, 17, 31, 32, 127, 128, 239, 240, 247, 248, 253, 254, 255, 256, 257]
for k in (9, 10, 11, 16, 17, 18, 19, 21, 22, 24, 26, 29, 31, 32, 35, 40, 48, 49, 56, 60, 63, 64, 65):
    BOUND += [2 ** k - 1, 2 ** k, 2 ** k + 1]


def gen_nat(rng, name):
    r = rng.random()
    if r < 0.45:
        return rng.choice(BOUND)
    if r < 0.6:
        return 1 << rng.randrange(0, 66)
    return rng.getrandbits(rng.choice([1, 3, 5, 8, 8, 11, 16, 18, 19, 21, 24, 29, 32, 40, 64, 66]))


def gen_args(rng, u, consts):
    args, lean = [], []
    for pn, pt in u['params']:
        if pn == 'LUT_FD_DLC':
            v = list(consts['lists']['LUT_FD_DLC'])
        elif pt == 'nat':
            v = gen_nat(rng, pn)
            if pn == 'i':
                v = rng.randrange(0, 6)
            if pn == 'message_size' and u['py'].get('kind') == 'expr':
                # int(a / b) is float division in Python: exact (= floor division) below 2^53 only
                v = v % (1 << 40)
        elif pt == 'list':
            lo = u['minlen'].get(pn, 0)
            n = rng.choice([lo, lo, 8, 12, rng.randrange(lo, 70), 64, 60, 59, 61])
            n = max(n, lo)
            if pn == 'data' and 'i' in [x[0] for x in u['params']]:
                n = 30
            mode = rng.random()
            v = [rng.choice([0, 255, 1, 128]) if mode < 0.3 else rng.randrange(256) for _ in range(n)]
        else:
            v = [gen_nat(rng, f) for f in u['fields'][pn]]
        args.append(v)
    return args


def lean_line(uname, u, args):
    toks = ["eval", uname]
    for (pn, pt), a in zip(u['params'], args):
        if pt == 'nat':
            toks.append(str(a))
        elif pt == 'list':
            toks.append(fmt_list(a))
        else:
            toks += [str(x) for x in a]
    return " ".join(toks)


def validate(repo, seed, per_unit, only=None):
    meta = json.load(open(os.path.join(GEN, 'units.json')))
    consts = json.load(open(os.path.join(GEN, 'consts.json')))
    orc = Oracle(repo, meta, consts)
    rng = random.Random(seed)
    lines, expect, tags = [], [], []
    skipped = 0
    for uname, u in meta['units'].items():
        if only and uname not in only:
            continue
        for _ in range(per_unit):
            args = gen_args(rng, u, consts)
            try:
                e = orc.run(uname, args)
            except (IndexError, OverflowError):
                skipped += 1
                continue
            lines.append(lean_line(uname, u, args))
            expect.append(e)
            tags.append(uname)
    p = subprocess.run([DRIVER], input="\n".join(lines) + "\n", capture_output=True, text=True)
    got = p.stdout.split("\n")
    bad = []
    for i, (l, e) in enumerate(zip(lines, expect)):
        g = got[i] if i < len(got) else "<missing>"
        if g != e:
            bad.append(dict(unit=tags[i], line=l, python=e, lean=g))
    return dict(evaluated=len(lines), skipped=skipped, mismatches=bad, units=len(set(tags)), failed_units=meta['failed'],
                sample=[dict(line=lines[i], out=expect[i]) for i in range(0, len(lines), max(1, len(lines) // 5))][:5])


if __name__ == '__main__':
    repo = sys.argv[1] if len(sys.argv) > 1 else '/repo'
    n = int(sys.argv[2]) if len(sys.argv) > 2 else 40
    r = validate(repo, int(os.environ.get('VERIF_SEED', '0')), n)
    print(json.dumps(dict(evaluated=r['evaluated'], skipped=r['skipped'], units=r['units'], mismatches=r['mismatches'][:10], nbad=len(r['mismatches'])), indent=1))
    sys.exit(1 if r['mismatches'] else 0)
