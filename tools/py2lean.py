#!/venv/bin/python
"""py2lean: translate the pure leaves of /repo/j1939 (codecs, frame builders, field extraction
expressions) from the Python AST into Lean 4 definitions over Nat / List Nat.

The supported subset is deliberately small (see DESIGN.md §4.1).  Anything outside it raises TErr and
the unit is reported as untranslatable: the tie for the properties that use it is then broken and the
check goes to the failing-input search; there is never a silent fall-back to an old translation.

Usage:  py2lean.py <repo> <out_dir>      writes Gen/Codec.lean, Gen/Eval.lean, units.json
"""
import ast, sys, os, json, textwrap, importlib, copy

class TErr(Exception):
    pass

# ------------------------------------------------------------------------------------------------
# types:  'nat' | 'bool' | 'list' | ('obj', cls) | ('tuple', [types]) | 'frame' | 'pgnreq' | ('opt', t)

def is_obj(t): return isinstance(t, tuple) and t[0] == 'obj'

LEAN_KEYWORDS = {'from', 'at', 'end', 'in', 'do', 'then', 'else', 'if', 'fun', 'let', 'have', 'show', 'open',
                 'section', 'namespace', 'structure', 'class', 'instance', 'def', 'theorem', 'with', 'match',
                 'Type', 'Prop', 'Sort', 'where', 'deriving', 'import', 'prefix', 'postfix', 'infix', 'notation',
                 'macro', 'syntax', 'by', 'calc', 'example', 'axiom', 'mutual', 'private', 'protected', 'return'}

def san(name):
    n = name.lstrip('_')
    if '__' in n:
        n = n.split('__')[-1]
    if n in LEAN_KEYWORDS:
        n = n + "'"
    return n


class Module:
    def __init__(self, repo, modname):
        self.path = os.path.join(repo, 'j1939', modname + '.py')
        self.src = open(self.path).read()
        self.tree = ast.parse(self.src)
        self.pymod = sys.modules['j1939.' + modname] if ('j1939.' + modname) in sys.modules else importlib.import_module('j1939.' + modname)
        self.classes = {}
        for node in self.tree.body:
            if isinstance(node, ast.ClassDef):
                self.classes[node.name] = node


class ClsInfo:
    def __init__(self, tr, leanname, module, clsname):
        self.tr = tr
        self.lean = leanname
        self.module = module
        self.node = module.classes[clsname]
        self.pyname = clsname
        self.pyobj = getattr(module.pymod, clsname)
        self.methods = {}
        self.getters = {}
        self.setters = {}
        for n in self.node.body:
            if isinstance(n, ast.FunctionDef):
                decos = [ast.unparse(d) for d in n.decorator_list]
                if 'property' in decos:
                    self.getters[n.name] = n
                elif any(d.endswith('.setter') for d in decos):
                    self.setters[n.name] = n
                else:
                    self.methods[n.name] = n
        # data fields: every `self.X = ...` whose X is not a property
        self.fields = []
        for n in ast.walk(self.node):
            tgts = []
            if isinstance(n, ast.Assign):
                tgts = n.targets
            elif isinstance(n, ast.AugAssign):
                tgts = [n.target]
            for t in tgts:
                if isinstance(t, ast.Attribute) and isinstance(t.value, ast.Name) and t.value.id == 'self':
                    if t.attr not in self.getters and t.attr not in self.fields:
                        self.fields.append(t.attr)

    def trivial_getter(self, name):
        g = self.getters.get(name)
        if g is None:
            return None
        body = [s for s in g.body if not (isinstance(s, ast.Expr) and isinstance(s.value, ast.Constant))]
        if len(body) == 1 and isinstance(body[0], ast.Return):
            v = body[0].value
            if isinstance(v, ast.Attribute) and isinstance(v.value, ast.Name) and v.value.id == 'self' and v.attr in self.fields:
                return v.attr
        return None

    def trivial_setter(self, name):
        s = self.setters.get(name)
        if s is None:
            return None
        body = [x for x in s.body if not (isinstance(x, ast.Expr) and isinstance(x.value, ast.Constant))]
        if len(body) == 1 and isinstance(body[0], ast.Assign) and len(body[0].targets) == 1:
            t = body[0].targets[0]
            v = body[0].value
            if (isinstance(t, ast.Attribute) and isinstance(t.value, ast.Name) and t.value.id == 'self' and t.attr in self.fields
                    and isinstance(v, ast.Name) and v.id == s.args.args[1].arg):
                return t.attr
        return None


class Rename(ast.NodeTransformer):
    def __init__(self, mapping):
        self.mapping = mapping

    def visit_Name(self, node):
        if node.id in self.mapping:
            return ast.copy_location(ast.Name(id=self.mapping[node.id], ctx=node.ctx), node)
        return node


def contains_exit(stmts):
    for s in stmts:
        for n in ast.walk(s):
            if isinstance(n, (ast.Return, ast.Raise)):
                return True
    return False


def assigned_vars(stmts):
    """names (and self.attr as 'self.attr') assigned anywhere in stmts, in first-assignment order"""
    out = []

    def add(x):
        if x not in out:
            out.append(x)

    def tgt(t):
        if isinstance(t, ast.Name):
            add(t.id)
        elif isinstance(t, ast.Attribute) and isinstance(t.value, ast.Name) and t.value.id == 'self':
            add('self.' + t.attr)
        elif isinstance(t, ast.Subscript):
            tgt(t.value)
        elif isinstance(t, ast.Tuple):
            for e in t.elts:
                tgt(e)

    for s in stmts:
        for n in ast.walk(s):
            if isinstance(n, ast.Assign):
                for t in n.targets:
                    tgt(t)
            elif isinstance(n, ast.AugAssign):
                tgt(n.target)
            elif isinstance(n, ast.Expr) and isinstance(n.value, ast.Call) and isinstance(n.value.func, ast.Attribute) \
                    and n.value.func.attr in ('append', 'extend', 'insert'):
                tgt(n.value.func.value)
            elif isinstance(n, ast.For):
                tgt(n.target)
    return out


class Translator:
    def __init__(self, repo):
        self.repo = repo
        sys.path.insert(0, repo)
        for k in [k for k in sys.modules if k == 'j1939' or k.startswith('j1939.')]:
            del sys.modules[k]
        import j1939  # noqa
        self.j1939 = j1939
        self.modules = {}
        self.classes = {}      # python class name -> ClsInfo
        self.defs = []         # (leanname, text)
        self.defnames = {}
        self.units = {}        # unit name -> dict(params=[(name,type)], ret=type)
        self.failed = {}       # unit name -> reason
        self.memo = {}

    def module(self, name):
        if name not in self.modules:
            self.modules[name] = Module(self.repo, name)
        return self.modules[name]

    def add_class(self, lean, modname, clsname):
        ci = ClsInfo(self, lean, self.module(modname), clsname)
        self.classes[clsname] = ci
        return ci

    # -- struct declarations ------------------------------------------------------------------
    def struct_decl(self, ci):
        fs = "\n".join(f"  {san(f)} : Nat" for f in ci.fields)
        return f"structure {ci.lean} where\n{fs}\nderiving DecidableEq, Repr, Inhabited\n"

    def add_def(self, name, text):
        if name in self.defnames:
            if self.defnames[name] != text:
                raise TErr(f"conflicting definitions for {name}")
            return
        self.defnames[name] = text
        self.defs.append((name, text))


def lean_type(t):
    if t == 'nat': return 'Nat'
    if t == 'int': return 'Int'
    if t == 'bool': return 'Bool'
    if t == 'list': return 'List Nat'
    if t == 'frame': return 'Frame'
    if t == 'pgnreq': return 'PgnReq'
    if is_obj(t): return t[1].lean
    if isinstance(t, tuple) and t[0] == 'tuple': return "(" + " × ".join(lean_type(x) for x in t[1]) + ")"
    if isinstance(t, tuple) and t[0] == 'opt': return f"Option {lean_type(t[1])}"
    raise TErr(f"no lean type for {t}")


class Fn:
    """translation of one function body (or one expression) in a given context"""

    def __init__(self, tr, ci, fnnode, *, selfmode, params, static=None, partial=False, self_params=None, result=None):
        self.tr = tr
        self.ci = ci                  # ClsInfo of the enclosing class or None
        self.fn = fnnode
        self.selfmode = selfmode      # 'ctor' | 'struct' | 'params' | None
        self.env = dict(params)       # python var -> type
        self.static = dict(static or {})   # python var -> python constant known at translation time (None, True..)
        self.partial = partial
        self.self_params = self_params if self_params is not None else {}   # attr -> type  (selfmode == 'params')
        self.used_self_params = []
        self.result = result          # what a fall-through returns: 'self' | None
        self.minlen = {}              # list param -> max const index + 1
        self.self_dirty = False
        self.tmp = 0

    # ---- helpers
    def fresh(self, base):
        self.tmp += 1
        return f"{base}_{self.tmp}"

    def selfvar(self, attr):
        return 'self_' + san(attr)

    def const_of(self, node):
        """resolve attribute chains on classes / modules to python constants by reflection"""
        try:
            src = ast.unparse(node)
        except Exception:
            return None
        parts = src.split('.')
        if not all(p.isidentifier() for p in parts):
            return None
        roots = {}
        if self.ci is not None:
            roots['self'] = self.ci.pyobj
            roots[self.ci.pyname] = self.ci.pyobj
        roots['j1939'] = self.tr.j1939
        for cname, c in self.tr.classes.items():
            roots.setdefault(cname, c.pyobj)
        if self.ci is not None:
            for k, v in vars(self.ci.module.pymod).items():
                roots.setdefault(k, v)
        if parts[0] not in roots:
            return None
        if parts[0] == 'self' and len(parts) == 2:
            # plain instance attribute (not a nested class constant)
            if not hasattr(roots['self'], parts[1]):
                return None
        obj = roots[parts[0]]
        try:
            for p in parts[1:]:
                if p.startswith('__') and not p.endswith('__') and self.ci is not None:
                    p = '_' + self.ci.pyname + p
                obj = getattr(obj, p)
        except AttributeError:
            return None
        if isinstance(obj, bool):
            return obj
        if isinstance(obj, int):
            return obj
        if isinstance(obj, float):
            return obj
        if isinstance(obj, list) and all(isinstance(x, int) for x in obj):
            return obj
        return None

    def static_eval(self, node):
        """try to decide a test at translation time (kwargs membership, None-ness of parameters)"""
        if isinstance(node, ast.Compare) and len(node.ops) == 1:
            l, op, r = node.left, node.ops[0], node.comparators[0]
            if isinstance(op, (ast.In, ast.NotIn)) and isinstance(l, ast.Constant) and isinstance(r, ast.Name) and r.id == 'kwargs':
                res = l.value in self.static.get('kwargs', ())
                return res if isinstance(op, ast.In) else (not res)
            if isinstance(r, ast.Constant) and r.value is None and isinstance(l, ast.Name):
                if l.id in self.static:
                    isnone = self.static[l.id] is None
                elif l.id in self.env:
                    isnone = False
                else:
                    return None
                if isinstance(op, (ast.Eq, ast.Is)): return isnone
                if isinstance(op, (ast.NotEq, ast.IsNot)): return not isnone
        return None

    # ---- expressions: return (leanstr, type)
    def nat(self, node):
        s, t = self.expr(node)
        if t == 'bool':
            return f"(Py.b2n {s})"
        if t != 'nat':
            raise TErr(f"expected int expression, got {t}: {ast.unparse(node)}")
        return s

    def boolean(self, node):
        s, t = self.expr(node)
        if t == 'nat':
            return f"({s} != 0)"
        if t != 'bool':
            raise TErr(f"expected bool expression: {ast.unparse(node)}")
        return s

    def lst(self, node):
        s, t = self.expr(node)
        if t != 'list':
            raise TErr(f"expected list expression, got {t}: {ast.unparse(node)}")
        return s

    def expr(self, node):
        if isinstance(node, ast.Constant):
            if isinstance(node.value, bool):
                return ('true' if node.value else 'false'), 'bool'
            if isinstance(node.value, int):
                return str(node.value), 'nat'
            raise TErr(f"constant {node.value!r}")
        if isinstance(node, ast.Name):
            if node.id in self.static and node.id not in self.env:
                v = self.static[node.id]
                if isinstance(v, bool): return ('true' if v else 'false'), 'bool'
                if isinstance(v, int): return str(v), 'nat'
                raise TErr(f"static {node.id}={v!r} used as value")
            if node.id in self.env:
                return san(node.id), self.env[node.id]
            c = self.const_of(node)
            if c is not None:
                return self.constant(c)
            raise TErr(f"unknown name {node.id}")
        if isinstance(node, ast.Attribute):
            c = self.const_of(node)
            if c is not None and not (isinstance(node.value, ast.Name) and node.value.id == 'self' and self.selfmode in ('ctor', 'struct')
                                      and self.ci is not None and (node.attr in self.ci.fields or node.attr in self.ci.getters)):
                return self.constant(c)
            if isinstance(node.value, ast.Name) and node.value.id == 'self':
                return self.self_attr(node.attr)
            base, t = self.expr(node.value)
            if is_obj(t):
                return self.obj_attr(base, t[1], node.attr)
            raise TErr(f"attribute {ast.unparse(node)}")
        if isinstance(node, ast.BinOp):
            op = type(node.op)
            if op is ast.Mult and isinstance(node.left, ast.List):
                if len(node.left.elts) != 1:
                    raise TErr("list repetition of non-singleton")
                return f"(List.replicate {self.nat(node.right)} {self.nat(node.left.elts[0])})", 'list'
            if op is ast.Add:
                ls, lt = self.expr(node.left)
                if lt == 'list':
                    return f"({ls} ++ {self.lst(node.right)})", 'list'
            if op is ast.Pow:
                return f"({self.nat(node.left)} ^ {self.nat(node.right)})", 'nat'
            if op is ast.Div:
                raise TErr("float division outside int(...)")
            if op is ast.BitAnd and isinstance(node.left, ast.BinOp) and isinstance(node.left.op, ast.Sub):
                # (a - b) & (2^k - 1)  ==  (a + (2^k - b % 2^k)) % 2^k   also when a < b (two's complement of Python ints)
                m = self.try_const(node.right)
                if m is not None and m >= 0 and (m & (m + 1)) == 0:
                    a, b = self.nat(node.left.left), self.nat(node.left.right)
                    return f"(({a} + ({m + 1} - ({b} % {m + 1}))) &&& {m})", 'nat'
            if op is ast.Sub:
                ca, cb = self.try_const(node.left), self.try_const(node.right)
                if ca is None or cb is None or ca < cb:
                    raise TErr(f"subtraction may go negative: {ast.unparse(node)}")
            sym = {ast.BitAnd: '&&&', ast.BitOr: '|||', ast.BitXor: '^^^', ast.LShift: '<<<', ast.RShift: '>>>',
                   ast.Add: '+', ast.Sub: '-', ast.Mult: '*', ast.FloorDiv: '/', ast.Mod: '%'}.get(op)
            if sym is None:
                raise TErr(f"operator {op.__name__}")
            return f"({self.nat(node.left)} {sym} {self.nat(node.right)})", 'nat'
        if isinstance(node, ast.UnaryOp) and isinstance(node.op, ast.Not):
            return f"(!{self.boolean(node.operand)})", 'bool'
        if isinstance(node, ast.BoolOp):
            sym = '&&' if isinstance(node.op, ast.And) else '||'
            return "(" + f" {sym} ".join(self.boolean(v) for v in node.values) + ")", 'bool'
        if isinstance(node, ast.Compare):
            se = self.static_eval(node)
            if se is not None:
                return ('true' if se else 'false'), 'bool'
            parts = []
            left = node.left
            for op, right in zip(node.ops, node.comparators):
                l, lt = self.expr(left)
                r, rt = self.expr(right)
                if lt == 'bool' and rt == 'bool':
                    pass
                else:
                    if lt == 'bool': l = f"(Py.b2n {l})"
                    if rt == 'bool': r = f"(Py.b2n {r})"
                    if (lt, rt) == ('list', 'list') and not isinstance(op, (ast.Eq, ast.NotEq)):
                        raise TErr("list ordering")
                o = type(op)
                if o is ast.Eq: parts.append(f"({l} == {r})")
                elif o is ast.NotEq: parts.append(f"({l} != {r})")
                elif o is ast.Lt: parts.append(f"(decide ({l} < {r}))")
                elif o is ast.LtE: parts.append(f"(decide ({l} ≤ {r}))")
                elif o is ast.Gt: parts.append(f"(decide ({l} > {r}))")
                elif o is ast.GtE: parts.append(f"(decide ({l} ≥ {r}))")
                else:
                    raise TErr(f"comparison {o.__name__}")
                left = right
            return ("(" + " && ".join(parts) + ")" if len(parts) > 1 else parts[0]), 'bool'
        if isinstance(node, ast.IfExp):
            se = self.static_eval(node.test)
            if se is True: return self.expr(node.body)
            if se is False: return self.expr(node.orelse)
            c = self.boolean(node.test)
            a, at = self.expr(node.body)
            b, bt = self.expr(node.orelse)
            if at != bt:
                raise TErr("conditional expression with different types")
            return f"(if {c} then {a} else {b})", at
        if isinstance(node, ast.List):
            return "[" + ", ".join(self.nat(e) for e in node.elts) + "]", 'list'
        if isinstance(node, ast.Tuple):
            parts = [self.expr(e) for e in node.elts]
            return "(" + ", ".join(p[0] for p in parts) + ")", ('tuple', [p[1] for p in parts])
        if isinstance(node, ast.Subscript):
            if isinstance(node.value, ast.Name) and isinstance(node.slice, ast.Constant) and isinstance(node.slice.value, str) \
                    and node.value.id != 'kwargs':
                # record['key'] of a dict-typed local: a declared input named <record>_<key>
                v = f"{node.value.id}_{node.slice.value}"
                if v in self.env:
                    return san(v), self.env[v]
                raise TErr(f"{node.value.id}[{node.slice.value!r}] is not a declared input")
            if isinstance(node.value, ast.Name) and node.value.id == 'kwargs' and isinstance(node.slice, ast.Constant):
                key = node.slice.value
                if key in self.env:
                    return san(key), self.env[key]
                raise TErr(f"kwargs[{key!r}] not passed")
            base, bt = self.expr(node.value)
            if bt != 'list':
                raise TErr(f"subscript of {bt}")
            sl = node.slice
            if isinstance(sl, ast.Slice):
                if sl.step is not None:
                    raise TErr("slice step")
                lo = self.nat(sl.lower) if sl.lower is not None else None
                hi = self.nat(sl.upper) if sl.upper is not None else None
                if lo is None and hi is None: return base, 'list'
                if lo is None: return f"({base}.take {hi})", 'list'
                if hi is None: return f"({base}.drop {lo})", 'list'
                return f"(Py.slice {base} {lo} {hi})", 'list'
            i = self.nat(sl)
            if isinstance(sl, ast.Constant) and isinstance(node.value, ast.Name):
                self.minlen[node.value.id] = max(self.minlen.get(node.value.id, 0), sl.value + 1)
            return f"(Py.idx {base} {i})", 'nat'
        if isinstance(node, ast.Call):
            return self.call(node)
        raise TErr(f"expression {type(node).__name__}: {ast.unparse(node)}")

    def try_const(self, node):
        try:
            v = eval(compile(ast.Expression(node), '<c>', 'eval'), {'__builtins__': {}}, {})
            return v if isinstance(v, int) and not isinstance(v, bool) else None
        except Exception:
            c = self.const_of(node)
            return c if isinstance(c, int) and not isinstance(c, bool) else None

    def constant(self, c):
        if isinstance(c, bool): return ('true' if c else 'false'), 'bool'
        if isinstance(c, int):
            if c < 0: raise TErr("negative constant")
            return str(c), 'nat'
        if isinstance(c, list): return "[" + ", ".join(str(x) for x in c) + "]", 'list'
        raise TErr(f"constant {c!r}")

    def self_attr(self, attr):
        ci = self.ci
        if self.selfmode in ('ctor', 'struct'):
            if attr.startswith('__') and not attr.endswith('__'):
                pass
            if attr in ci.fields:
                v = 'self.' + attr
                if v not in self.env:
                    raise TErr(f"self.{attr} read before assignment")
                return self.selfvar(attr), self.env[v]
            if attr in ci.getters:
                tf = ci.trivial_getter(attr)
                if tf is not None:
                    return self.self_attr(tf)
                missing = [f for f in ci.fields if 'self.' + f not in self.env]
                if missing:
                    raise TErr(f"self.{attr} read while {missing} unassigned")
                name, t = self.tr.getter_def(ci, attr)
                if self.selfmode == 'struct' and not self.self_dirty:
                    return f"({name} self)", t
                obj = "{ " + ", ".join(f"{san(f)} := {self.selfvar(f)}" for f in ci.fields) + f" : {ci.lean} }}"
                return f"({name} {obj})", t
            raise TErr(f"self.{attr}")
        if self.selfmode == 'params':
            if attr in self.self_params:
                if attr not in self.used_self_params:
                    self.used_self_params.append(attr)
                return san(attr), self.self_params[attr]
            raise TErr(f"self.{attr} is not a declared input")
        raise TErr(f"self.{attr} without self")

    def obj_attr(self, base, ci, attr):
        if attr in ci.fields:
            return f"{base}.{san(attr)}", 'nat'
        if attr in ci.getters:
            tf = ci.trivial_getter(attr)
            if tf is not None:
                return f"{base}.{san(tf)}", 'nat'
            name, t = self.tr.getter_def(ci, attr)
            return f"({name} {base})", t
        raise TErr(f"{ci.pyname}.{attr}")

    def call(self, node):
        f = node.func
        fname = ast.unparse(f)
        if fname in ('min', 'max') and len(node.args) == 2:
            return f"({fname} {self.nat(node.args[0])} {self.nat(node.args[1])})", 'nat'
        if fname == 'list' and len(node.args) == 1:
            return self.lst(node.args[0]), 'list'      # a copy: values are immutable here
        if fname == 'len' and len(node.args) == 1:
            return f"{self.lst(node.args[0])}.length", 'nat'
        if fname == 'int' and len(node.args) == 1:
            a = node.args[0]
            if isinstance(a, ast.BinOp) and isinstance(a.op, ast.Div):
                # int(a / b): float division; exact for the magnitudes in scope (< 2^53)
                return f"({self.nat(a.left)} / {self.nat(a.right)})", 'nat'
            return self.nat(a), 'nat'
        if fname == 'int.from_bytes':
            kws = {k.arg: k.value for k in node.keywords}
            arg = node.args[0] if node.args else kws.get('bytes')
            bo = kws.get('byteorder', node.args[1] if len(node.args) > 1 else None)
            sg = kws.get('signed')
            if not (isinstance(bo, ast.Constant) and bo.value == 'little'):
                raise TErr("from_bytes byteorder")
            if sg is not None and not (isinstance(sg, ast.Constant) and sg.value is False):
                raise TErr("from_bytes signed")
            return f"(Py.fromBytesLE {self.lst(arg)})", 'nat'
        if isinstance(f, ast.Attribute) and f.attr == 'to_bytes':
            kws = {k.arg: k.value for k in node.keywords}
            ln = kws.get('length', node.args[0] if node.args else None)
            bo = kws.get('byteorder', node.args[1] if len(node.args) > 1 else None)
            if not (isinstance(bo, ast.Constant) and bo.value == 'little'):
                raise TErr("to_bytes byteorder")
            return f"(Py.toBytesLE {self.nat(ln)} {self.nat(f.value)})", 'list'
        if isinstance(f, ast.Attribute) and f.attr == 'copy' and not node.args:
            return self.expr(f.value)
        if isinstance(f, ast.Attribute) and f.attr == 'get' and isinstance(f.value, ast.Name) and f.value.id == 'kwargs':
            key = node.args[0].value
            if key in self.env:
                return san(key), self.env[key]
            if len(node.args) > 1:
                return self.expr(node.args[1])
            raise TErr(f"kwargs.get({key!r}) without value")
        # constructor of a known class
        cname = fname.split('.')[-1]
        if cname in self.tr.classes and (fname == cname or fname == 'j1939.' + cname):
            ci = self.tr.classes[cname]
            name, ptypes = self.tr.ctor_def(ci, node, self)
            args = self.bind_args(ci.methods['__init__'], node, ptypes, drop_self=True)
            return f"({name} {' '.join(args)})" if args else name, ('obj', ci)
        # method of a freshly constructed, field-less helper object:  DtcLamp().get_status(a, b)
        if isinstance(f, ast.Attribute) and isinstance(f.value, ast.Call) and not f.value.args and not f.value.keywords:
            cn = ast.unparse(f.value.func).split('.')[-1]
            if cn in self.tr.classes and not self.tr.classes[cn].fields and f.attr in self.tr.classes[cn].methods:
                ci2 = self.tr.classes[cn]
                name, params, ret, selfp = self.tr.method_def(ci2, f.attr)
                if selfp:
                    raise TErr(f"{cn}().{f.attr} reads instance state")
                args = self.bind_args(ci2.methods[f.attr], node, params, drop_self=True)
                return f"({name} {' '.join(args)})", ret
        # method of self that is a translated unit
        if isinstance(f, ast.Attribute) and isinstance(f.value, ast.Name) and f.value.id == 'self' and self.ci is not None:
            m = f.attr
            if m in self.ci.methods:
                name, params, ret, selfp = self.tr.method_def(self.ci, m)
                args = [self.self_attr(a)[0] for a in selfp]
                args += self.bind_args(self.ci.methods[m], node, params, drop_self=True)
                return f"({name} {' '.join(args)})", ret
        raise TErr(f"call {fname}")

    def bind_args(self, fnnode, call, ptypes, drop_self):
        """ptypes: ordered [(pyname, type)] of the callee's lean parameters; fill from call + defaults"""
        a = fnnode.args
        names = [x.arg for x in a.args]
        if drop_self: names = names[1:]
        defaults = dict(zip(names[len(names) - len(a.defaults):], a.defaults))
        given = {}
        for n, v in zip(names, call.args):
            given[n] = v
        for k in call.keywords:
            given[k.arg] = k.value
        out = []
        for pn, pt in ptypes:
            if pn in given:
                node = given[pn]
            elif pn in defaults:
                node = defaults[pn]
            else:
                raise TErr(f"missing argument {pn}")
            s, t = self.expr(node)
            if pt == 'nat' and t == 'bool':
                s = f"(Py.b2n {s})"
            elif t != pt:
                raise TErr(f"argument {pn}: expected {pt}, got {t}")
            out.append(s)
        return out

    # ---- statements
    def block_value(self, stmts):
        """translate a block that must end in return on every path; gives (lean, type)"""
        self.ret_type = None
        s = self.block(stmts, None)
        return s, self.ret_type

    def set_ret(self, t):
        if self.ret_type is None:
            self.ret_type = t
        elif self.ret_type != t:
            raise TErr(f"return types differ: {self.ret_type} vs {t}")

    def wrap(self, s):
        return f"some ({s})" if self.partial else s

    def block(self, stmts, kont):
        if not stmts:
            if kont is None:
                raise TErr("block falls through without a value")
            return kont()
        s, rest = stmts[0], stmts[1:]
        if isinstance(s, ast.Expr) and isinstance(s.value, ast.Constant):
            return self.block(rest, kont)
        if isinstance(s, ast.Pass):
            return self.block(rest, kont)
        if isinstance(s, ast.Return):
            v, t = self.expr(s.value)
            self.set_ret(t)
            return self.wrap(v)
        if isinstance(s, ast.Raise):
            if not self.partial:
                raise TErr("raise in a total unit")
            return "none"
        if isinstance(s, ast.Assign):
            if len(s.targets) != 1:
                raise TErr("multiple assignment targets")
            return self.assign(s.targets[0], s.value, rest, kont)
        if isinstance(s, ast.AugAssign):
            val = ast.BinOp(left=copy.deepcopy(s.target), op=s.op, right=s.value)
            ast.fix_missing_locations(val)
            for n in ast.walk(val):
                if hasattr(n, 'ctx'): n.ctx = ast.Load()
            return self.assign(s.target, val, rest, kont)
        if isinstance(s, ast.Expr) and isinstance(s.value, ast.Call):
            return self.call_stmt(s.value, rest, kont)
        if isinstance(s, ast.If):
            return self.if_stmt(s, rest, kont)
        if isinstance(s, ast.For):
            return self.for_stmt(s, rest, kont)
        if isinstance(s, ast.While):
            return self.while_stmt(s, rest, kont)
        raise TErr(f"statement {type(s).__name__}: {ast.unparse(s)[:60]}")

    def assign(self, target, value, rest, kont):
        if isinstance(target, ast.Name):
            if isinstance(value, ast.Constant) and value.value is None:
                self.static[target.id] = None
                return self.block(rest, kont)
            v, t = self.expr(value)
            self.env[target.id] = t
            self.static.pop(target.id, None)
            return f"let {san(target.id)} := {v}\n" + self.block(rest, kont)
        if isinstance(target, ast.Attribute) and isinstance(target.value, ast.Name) and target.value.id == 'self':
            attr = target.attr
            ci = self.ci
            if self.selfmode not in ('ctor', 'struct'):
                raise TErr(f"assignment to self.{attr}")
            if attr in ci.setters and ci.trivial_setter(attr) is None:
                # inline the setter with a renamed parameter
                st = ci.setters[attr]
                p = st.args.args[1].arg
                newp = self.fresh(p)
                body = [Rename({p: newp}).visit(copy.deepcopy(x)) for x in strip_doc(st.body)]
                v, t = self.expr(value)
                self.env[newp] = t
                return f"let {san(newp)} := {v}\n" + self.block(body + rest, kont)
            if attr in ci.setters:
                attr = ci.trivial_setter(attr)
            if attr not in ci.fields:
                raise TErr(f"self.{attr} is not a field")
            v = self.nat(value)
            self.env['self.' + attr] = 'nat'
            self.self_dirty = True
            return f"let {self.selfvar(attr)} := {v}\n" + self.block(rest, kont)
        if isinstance(target, ast.Subscript) and isinstance(target.value, ast.Name):
            name = target.value.id
            if self.env.get(name) != 'list':
                raise TErr("subscript store on non-list")
            i = self.nat(target.slice)
            v = self.nat(value)
            return f"let {san(name)} := Py.set {san(name)} {i} {v}\n" + self.block(rest, kont)
        if isinstance(target, ast.Tuple) and all(isinstance(e, ast.Name) for e in target.elts):
            v, t = self.expr(value)
            if not (isinstance(t, tuple) and t[0] == 'tuple' and len(t[1]) == len(target.elts)):
                raise TErr("tuple assignment shape")
            for e, et in zip(target.elts, t[1]):
                self.env[e.id] = et
            return f"let ({', '.join(san(e.id) for e in target.elts)}) := {v}\n" + self.block(rest, kont)
        raise TErr(f"assignment target {ast.unparse(target)}")

    EMITTERS = ('__send_message', 'send_message')

    def call_stmt(self, call, rest, kont):
        f = call.func
        if isinstance(f, ast.Attribute) and isinstance(f.value, ast.Name) and self.env.get(f.value.id) == 'list':
            name = f.value.id
            n = san(name)
            if f.attr == 'append':
                return f"let {n} := {n} ++ [{self.nat(call.args[0])}]\n" + self.block(rest, kont)
            if f.attr == 'extend':
                return f"let {n} := {n} ++ {self.lst(call.args[0])}\n" + self.block(rest, kont)
            if f.attr == 'insert':
                return f"let {n} := Py.insert {n} {self.nat(call.args[0])} {self.nat(call.args[1])}\n" + self.block(rest, kont)
        fname = ast.unparse(f)
        # emission of a CAN frame: self.__send_message(can_id, extended, data, fd_format=...)
        if fname in ('self.__send_message', 'self._ecu.send_message'):
            kws = {k.arg: k.value for k in call.keywords}
            cid = self.nat(call.args[0])
            ext = self.boolean(call.args[1])
            data = self.lst(call.args[2])
            fd = self.boolean(kws['fd_format']) if 'fd_format' in kws else 'false'
            self.set_ret('frame')
            if rest:
                raise TErr("statements after frame emission")
            return self.wrap(f"{{ id := {cid}, ext := {ext}, data := {data}, fd := {fd} }}")
        # emission of a PDU through the CA / ECU: send_pgn(dp, pf, ps, prio, [sa,] data)
        if fname in ('self._ca.send_pgn',):
            a = call.args
            self.set_ret('pgnreq')
            if rest:
                raise TErr("statements after send_pgn")
            return self.wrap(f"{{ dp := {self.nat(a[0])}, pf := {self.nat(a[1])}, ps := {self.nat(a[2])}, prio := {self.nat(a[3])}, data := {self.lst(a[4])} }}")
        if fname in ('self._ecu.send_pgn',):
            a = call.args
            self.set_ret(('tuple', ['pgnreq', 'nat']))
            if rest:
                raise TErr("statements after send_pgn")
            return self.wrap(f"({{ dp := {self.nat(a[0])}, pf := {self.nat(a[1])}, ps := {self.nat(a[2])}, prio := {self.nat(a[3])}, data := {self.lst(a[5])} }}, {self.nat(a[4])})")
        # tail call of another translated method of self (wrappers around __send_tp_cm)
        if isinstance(f, ast.Attribute) and isinstance(f.value, ast.Name) and f.value.id == 'self' and self.ci and f.attr in self.ci.methods:
            v, t = self.call(call)
            if t in ('frame', 'pgnreq'):
                if rest:
                    raise TErr("statements after emission")
                self.set_ret(t)
                return self.wrap(v)
        if fname.startswith('logger.') or fname == 'print':
            return self.block(rest, kont)
        raise TErr(f"call statement {fname}")

    def join_vars(self, stmts_list):
        vs = []
        for st in stmts_list:
            for v in assigned_vars(st):
                if v not in vs:
                    vs.append(v)
        return vs

    def varname(self, v):
        return self.selfvar(v[5:]) if v.startswith('self.') else san(v)

    def if_stmt(self, s, rest, kont):
        se = self.static_eval(s.test)
        if se is True:
            return self.block(list(s.body) + rest, kont)
        if se is False:
            return self.block(list(s.orelse) + rest, kont)
        c = self.boolean(s.test)
        if contains_exit(s.body) or contains_exit(s.orelse):
            env0, st0 = dict(self.env), dict(self.static)
            a = self.block(list(s.body) + rest, kont)
            enva = self.env
            self.env, self.static = dict(env0), dict(st0)
            b = self.block(list(s.orelse) + rest, kont)
            return f"if {c} then\n{indent(a)}\nelse\n{indent(b)}"
        vs = self.join_vars([s.body, s.orelse])
        if not vs:
            return self.block(rest, kont)
        env0, st0 = dict(self.env), dict(self.static)
        tup = ", ".join(self.varname(v) for v in vs)
        tupx = f"({tup})" if len(vs) > 1 else tup

        def k():
            for v in vs:
                if v not in self.env:
                    raise TErr(f"variable {v} assigned in only one branch and undefined before")
            return tupx
        a = self.block(list(s.body), k)
        enva = dict(self.env)
        self.env, self.static = dict(env0), dict(st0)
        b = self.block(list(s.orelse), k)
        for v in vs:
            if enva[v] != self.env[v]:
                raise TErr(f"variable {v} has different types in branches")
        for v in vs:
            self.static.pop(v, None)
        return f"let {tupx} := (if {c} then\n{indent(a)}\nelse\n{indent(b)})\n" + self.block(rest, kont)

    def for_stmt(self, s, rest, kont):
        if s.orelse or contains_exit(s.body):
            raise TErr("for with else/return")
        for n in ast.walk(s):
            if isinstance(n, (ast.Break, ast.Continue)):
                raise TErr("break/continue in for")
        it = s.iter
        if isinstance(it, ast.Call) and ast.unparse(it.func) == 'range':
            if len(it.args) == 1:
                iters = f"(List.range {self.nat(it.args[0])})"
            elif len(it.args) == 2:
                lo, hi = self.nat(it.args[0]), self.nat(it.args[1])
                iters = f"((List.range ({hi} - {lo})).map (· + {lo}))"
            else:
                raise TErr("range with step")
            if not isinstance(s.target, ast.Name):
                raise TErr("for target")
            pat = san(s.target.id)
            self.env[s.target.id] = 'nat'
        else:
            iters = self.lst(it)
            if not isinstance(s.target, ast.Name):
                raise TErr("for target")
            pat = san(s.target.id)
            self.env[s.target.id] = 'nat'
        vs = [v for v in assigned_vars(s.body) if v != s.target.id]
        for v in vs:
            if v not in self.env:
                raise TErr(f"loop variable {v} not initialised before the loop")
        tup = ", ".join(self.varname(v) for v in vs)
        tupx = f"({tup})" if len(vs) > 1 else tup
        body = self.block(list(s.body), lambda: tupx)
        return f"let {tupx} := {iters}.foldl (fun {tupx} {pat} =>\n{indent(body)}) {tupx}\n" + self.block(rest, kont)

    def while_stmt(self, s, rest, kont):
        # only:  while len(v) < N: <body that appends at least one element per iteration>
        t = s.test
        if not (isinstance(t, ast.Compare) and len(t.ops) == 1 and isinstance(t.ops[0], ast.Lt)
                and isinstance(t.left, ast.Call) and ast.unparse(t.left.func) == 'len'
                and isinstance(t.left.args[0], ast.Name)):
            raise TErr("while loop shape")
        v = t.left.args[0].id
        n = self.nat(t.comparators[0])
        if contains_exit(s.body) or s.orelse:
            raise TErr("while with return/else")
        body = list(s.body)
        if len(body) == 1 and isinstance(body[0], ast.Expr) and isinstance(body[0].value, ast.Call) \
                and ast.unparse(body[0].value.func) == v + '.append':
            c = self.nat(body[0].value.args[0])
            return f"let {san(v)} := Py.pad {san(v)} {n} {c}\n" + self.block(rest, kont)
        if not appends_always(body, v):
            raise TErr("while body does not append on every path")
        vs = assigned_vars(body)
        for x in vs:
            if x not in self.env:
                raise TErr(f"loop variable {x} not initialised before the loop")
        tup = ", ".join(self.varname(x) for x in vs)
        tupx = f"({tup})" if len(vs) > 1 else tup
        b = self.block(body, lambda: tupx)
        return (f"let {tupx} := (List.range ({n} - {san(v)}.length)).foldl (fun {tupx} _ =>\n"
                f"{indent('if ' + san(v) + '.length < ' + n + ' then')}\n{indent(indent(b))}\n{indent('else ' + tupx)}) {tupx}\n"
                + self.block(rest, kont))


def appends_always(body, v):
    for s in body:
        if isinstance(s, ast.Expr) and isinstance(s.value, ast.Call) and ast.unparse(s.value.func) == v + '.append':
            return True
        if isinstance(s, ast.If) and s.orelse and appends_always(s.body, v) and appends_always(s.orelse, v):
            return True
    return False


def indent(s, n=2):
    return "\n".join((" " * n + l) if l else l for l in s.split("\n"))


def strip_doc(body):
    return [s for s in body if not (isinstance(s, ast.Expr) and isinstance(s.value, ast.Constant) and isinstance(s.value.value, str))]


# ------------------------------------------------------------------------------------------------
# definitions generated on demand

def _getter_def(self, ci, attr):
    key = ('getter', ci.pyname, attr)
    if key in self.memo:
        return self.memo[key]
    g = ci.getters[attr]
    fn = Fn(self, ci, g, selfmode='struct', params={})
    for f in ci.fields:
        fn.env['self.' + f] = 'nat'
    body, t = fn.block_value(strip_doc(g.body))
    pre = "".join(f"let {fn.selfvar(f)} := self.{san(f)}\n" for f in ci.fields if f"self_{san(f)}" in body)
    name = f"{ci.lean}.{san(attr)}"
    self.add_def(name, f"def {name} (self : {ci.lean}) : {lean_type(t)} :=\n{indent(pre + body)}\n")
    self.memo[key] = (name, t)
    return self.memo[key]


def _ctor_variant(self, ci, passed, alias=None, partial=False):
    """constructor specialised to the set of keyword/positional parameters that are passed"""
    passed = list(passed)
    key = ('ctor', ci.pyname, tuple(sorted(passed)), partial)
    if key in self.memo:
        return self.memo[key]
    init = ci.methods['__init__']
    a = init.args
    names = [x.arg for x in a.args][1:]
    defaults = dict(zip(names[len(names) - len(a.defaults):], a.defaults))
    params = {}
    static = {}
    ptypes = []
    if a.kwarg is not None:
        static['kwargs'] = tuple(passed)
        for p in passed:
            params[p] = 'nat' if p != 'bytes' else 'list'
            ptypes.append((p, params[p]))
    else:
        for n in passed:
            if n not in names:
                raise TErr(f"{ci.pyname}(): no parameter {n}")
            params[n] = 'nat'
            ptypes.append((n, 'nat'))
        for n in names:
            if n not in passed:
                d = defaults.get(n)
                if d is None:
                    raise TErr(f"{ci.pyname}(): parameter {n} neither passed nor defaulted")
                if isinstance(d, ast.Constant) and (d.value is None or isinstance(d.value, int)):
                    static[n] = d.value
                else:
                    raise TErr(f"{ci.pyname}(): default of {n}")
    fn = Fn(self, ci, init, selfmode='ctor', params=params, static=static, partial=partial)
    fn.ret_type = None

    def k():
        missing = [f for f in ci.fields if 'self.' + f not in fn.env]
        if missing:
            raise TErr(f"{ci.pyname} constructor leaves {missing} unassigned")
        return fn.wrap("{ " + ", ".join(f"{san(f)} := {fn.selfvar(f)}" for f in ci.fields) + " }")
    body = fn.block(strip_doc(init.body), k)
    name = alias or f"{ci.lean}.init_" + "_".join(san(p) for p in sorted(passed))
    ps = " ".join(f"({san(p)} : {lean_type(t)})" for p, t in ptypes)
    rt = f"Option {ci.lean}" if partial else ci.lean
    self.add_def(name, f"def {name} {ps} : {rt} :=\n{indent(body)}\n")
    self.memo[key] = (name, ptypes)
    return self.memo[key]


def _ctor_def(self, ci, call, caller):
    init = ci.methods['__init__']
    names = [x.arg for x in init.args.args][1:]
    passed = names[:len(call.args)] + [k.arg for k in call.keywords]
    alias, order = CTOR_ALIASES.get((ci.pyname, tuple(sorted(passed))), (None, None))
    return self.ctor_variant(ci, order if order is not None else sorted(passed), alias)


def _method_def(self, ci, mname, alias=None, self_params=None, param_types=None):
    key = ('method', ci.pyname, mname)
    if key in self.memo:
        return self.memo[key]
    m = ci.methods[mname]
    spec = METHOD_SPECS.get((ci.pyname, mname), {})
    alias = alias or spec.get('alias') or f"{ci.lean}.{san(mname)}"
    self_params = self_params or spec.get('self_params', {})
    param_types = param_types or spec.get('param_types', {})
    names = [x.arg for x in m.args.args][1:]
    params = {n: param_types.get(n, 'nat') for n in names}
    fn = Fn(self, ci, m, selfmode='params', params=params, self_params=self_params)
    body, t = fn.block_value(strip_doc(m.body))
    selfp = list(fn.used_self_params)
    ptypes = [(n, params[n]) for n in names]
    ps = " ".join([f"({san(a)} : {lean_type(self_params[a])})" for a in selfp] + [f"({san(n)} : {lean_type(t_)})" for n, t_ in ptypes])
    text = f"def {alias} {ps} : {lean_type(t)} :=\n{indent(body)}\n"
    for p, k in fn.minlen.items():
        text += f"def {alias}_minLen_{san(p)} : Nat := {k}\n"
    self.add_def(alias, text)
    self.memo[key] = (alias, ptypes, t, selfp)
    self.units[alias] = dict(params=[(san(a), self_params[a]) for a in selfp] + [(san(n), t_) for n, t_ in ptypes], ret=t,
                             src=f"{ci.pyname}.{mname}", minlen={san(p): k for p, k in fn.minlen.items()},
                             kind='method', pycls=ci.pyname, pymod=ci.module.pymod.__name__, pymethod=mname,
                             pyparams=list(selfp) + [n for n, _ in ptypes], nself=len(selfp))
    return self.memo[key]


Translator.getter_def = _getter_def
Translator.ctor_variant = _ctor_variant
Translator.ctor_def = _ctor_def
Translator.method_def = _method_def

def _al(cls, lean, order):
    return ((cls, tuple(sorted(order))), (lean, list(order)))


CTOR_ALIASES = dict([
    _al('MessageId', 'MessageId.ofFields', ['priority', 'parameter_group_number', 'source_address']),
    _al('MessageId', 'MessageId.ofCanId', ['can_id']),
    _al('ParameterGroupNumber', 'PGN.ofFields', ['data_page', 'pdu_format', 'pdu_specific']),
    _al('DTC', 'DTC.ofDtc', ['dtc']),
    _al('DTC', 'DTC.ofFields', ['spn', 'fmi', 'oc']),
    _al('Name', 'Name.ofValue', ['value']),
    _al('Name', 'Name.ofBytes', ['bytes']),
])

LUT = {'_LUT_FD_DLC': 'list'}
METHOD_SPECS = {
    ('J1939_21', '_J1939_21__send_tp_dt'): dict(alias='Tp21.dt', param_types={'data': 'list'}),
}


def expr_unit(tr, ci, fname, target, lean, params, occurrence=0, self_params=None, is_test=False, as_int=False):
    """translate the right-hand side of the `occurrence`-th assignment to `target` inside method `fname`
    (or, with is_test, the condition of the `occurrence`-th `if` whose source contains `target`)"""
    m = ci.methods.get(fname) or ci.getters.get(fname) or ci.setters.get(fname)
    if m is None:
        raise TErr(f"{ci.pyname}.{fname} not found")
    found = []
    for n in ast.walk(m):
        if is_test:
            if isinstance(n, (ast.If, ast.While, ast.IfExp)) and target in ast.unparse(n.test):
                found.append(n.test)
        elif target.startswith('call:'):
            # call:<callee source>:<argument index>  — the given argument of the occurrence-th such call
            _, callee, ai = target.split(':')
            if isinstance(n, ast.Call) and ast.unparse(n.func) == callee and len(n.args) > int(ai):
                found.append(n.args[int(ai)])
        elif isinstance(n, ast.Assign) and len(n.targets) == 1 and ast.unparse(n.targets[0]) == target:
            found.append(n.value)
    found.sort(key=lambda n: (n.lineno, n.col_offset))
    if len(found) <= occurrence:
        raise TErr(f"{ci.pyname}.{fname}: assignment #{occurrence} to {target} not found")
    node = found[occurrence]
    fn = Fn(tr, ci, m, selfmode='params', params=dict(params), self_params=self_params or {})
    if as_int:
        if not (isinstance(node, ast.BinOp) and isinstance(node.op, (ast.Sub, ast.Add))):
            raise TErr("as_int unit must be a top-level +/-")
        sym = '-' if isinstance(node.op, ast.Sub) else '+'
        s, t = f"((({fn.nat(node.left)} : Nat) : Int) {sym} (({fn.nat(node.right)} : Nat) : Int))", 'int'
    else:
        s, t = fn.expr(node)
    selfp = list(fn.used_self_params)
    allp = [(san(a), (self_params or {})[a]) for a in selfp] + [(san(n), t_) for n, t_ in params]
    ps = " ".join(f"({n} : {lean_type(t_)})" for n, t_ in allp)
    text = f"def {lean} {ps} : {lean_type(t)} :=\n  {s}\n"
    for p, k in fn.minlen.items():
        text += f"def {lean}_minLen_{san(p)} : Nat := {k}\n"
    tr.add_def(lean, text)
    tr.units[lean] = dict(params=allp, ret=t, src=f"{ci.pyname}.{fname}::{target}#{occurrence}", minlen={san(p): k for p, k in fn.minlen.items()},
                          kind='expr', pyexpr=ast.unparse(node), pycls=ci.pyname, pymod=ci.module.pymod.__name__,
                          pyparams=[a for a in selfp] + [n for n, _ in params], nself=len(selfp))


def method_unit(tr, ci, mname, lean, self_params=None, param_types=None):
    pm = mname
    if mname.startswith('__') and not mname.endswith('__'):
        pm = mname
    if pm not in ci.methods:
        raise TErr(f"{ci.pyname}.{mname} not found")
    tr.method_def(ci, pm, alias=lean, self_params=self_params or {}, param_types=param_types or {})


def getter_unit(tr, ci, attr):
    name, t = tr.getter_def(ci, attr)
    tr.units[name] = dict(params=[('self', ('obj', ci))], ret=t, src=f"{ci.pyname}.{attr}", minlen={},
                          kind='getter', pycls=ci.pyname, pymod=ci.module.pymod.__name__, pyattr=attr)


def ctor_unit(tr, ci, passed, lean, partial=False):
    name, ptypes = tr.ctor_variant(ci, list(passed), lean, partial=partial)
    rt = ('obj', ci)
    tr.units[name] = dict(params=[(san(p), t) for p, t in ptypes], ret=('opt', rt) if partial else rt,
                          src=f"{ci.pyname}.__init__({','.join(sorted(passed))})", minlen={},
                          kind='ctor', pycls=ci.pyname, pymod=ci.module.pymod.__name__, pyparams=[p for p, _ in ptypes])


def setter_unit(tr, ci, attr, lean, ptype='nat'):
    st = ci.setters[attr]
    p = st.args.args[1].arg
    fn = Fn(tr, ci, st, selfmode='struct', params={p: ptype})
    for f in ci.fields:
        fn.env['self.' + f] = 'nat'
    fn.ret_type = None

    def k():
        return "{ " + ", ".join(f"{san(f)} := {fn.selfvar(f)}" for f in ci.fields) + " }"
    body = fn.block(strip_doc(st.body), k)
    pre = "".join(f"let {fn.selfvar(f)} := self.{san(f)}\n" for f in ci.fields)
    tr.add_def(lean, f"def {lean} (self : {ci.lean}) ({san(p)} : {lean_type(ptype)}) : {ci.lean} :=\n{indent(pre + body)}\n")
    tr.units[lean] = dict(params=[('self', ('obj', ci)), (san(p), ptype)], ret=('obj', ci), src=f"{ci.pyname}.{attr}.setter", minlen={})


# ------------------------------------------------------------------------------------------------
def build(repo):
    tr = Translator(repo)
    MID = tr.add_class('MessageId', 'message_id', 'MessageId')
    PGN = tr.add_class('PGN', 'parameter_group_number', 'ParameterGroupNumber')
    NAME = tr.add_class('Name', 'name', 'Name')
    DTC = tr.add_class('DTC', 'diagnostic_messages', 'DTC')
    LAMP = tr.add_class('DtcLamp', 'diagnostic_messages', 'DtcLamp')
    DM1 = tr.add_class('Dm1', 'diagnostic_messages', 'Dm1')
    DM22 = tr.add_class('Dm22', 'diagnostic_messages', 'Dm22')
    D21 = tr.add_class('Dll21', 'j1939_21', 'J1939_21')
    D22 = tr.add_class('Dll22', 'j1939_22', 'J1939_22')
    CA = tr.add_class('Ca', 'controller_application', 'ControllerApplication')
    Q14 = tr.add_class('Dm14Query', 'Dm14Query', 'Dm14Query')
    S14 = tr.add_class('Dm14Server', 'Dm14Server', 'DM14Server')

    def attempt(name, f):
        try:
            f()
        except TErr as e:
            tr.failed[name] = str(e)
        except Exception as e:  # translator bug or unexpected source shape: same handling, flagged
            tr.failed[name] = f"internal: {type(e).__name__}: {e}"

    L = 'list'
    # --- identifiers, PGN, NAME (C15, C03, C05, C14)
    attempt('MessageId.ofFields', lambda: ctor_unit(tr, MID, ['priority', 'parameter_group_number', 'source_address'], 'MessageId.ofFields'))
    attempt('MessageId.ofCanId', lambda: ctor_unit(tr, MID, ['can_id'], 'MessageId.ofCanId'))
    attempt('MessageId.can_id', lambda: getter_unit(tr, MID, 'can_id'))
    attempt('PGN.ofFields', lambda: ctor_unit(tr, PGN, ['data_page', 'pdu_format', 'pdu_specific'], 'PGN.ofFields'))
    attempt('PGN.value', lambda: getter_unit(tr, PGN, 'value'))
    attempt('PGN.is_pdu1_format', lambda: getter_unit(tr, PGN, 'is_pdu1_format'))
    attempt('PGN.is_pdu2_format', lambda: getter_unit(tr, PGN, 'is_pdu2_format'))
    attempt('PGN.from_message_id', lambda: pgn_from_mid(tr, PGN, MID))
    attempt('Name.ofValue', lambda: ctor_unit(tr, NAME, ['value'], 'Name.ofValue'))
    attempt('Name.ofBytes', lambda: ctor_unit(tr, NAME, ['bytes'], 'Name.ofBytes'))
    name_fields = ['arbitrary_address_capable', 'industry_group', 'vehicle_system_instance', 'vehicle_system', 'function',
                   'function_instance', 'ecu_instance', 'manufacturer_code', 'identity_number']
    attempt('Name.ofFields', lambda: ctor_unit(tr, NAME, name_fields, 'Name.ofFields', partial=True))
    attempt('Name.value', lambda: getter_unit(tr, NAME, 'value'))
    attempt('Name.bytes', lambda: getter_unit(tr, NAME, 'bytes'))
    # --- diagnostics (C16)
    attempt('DTC.ofDtc', lambda: ctor_unit(tr, DTC, ['dtc'], 'DTC.ofDtc'))
    attempt('DTC.ofFields', lambda: ctor_unit(tr, DTC, ['spn', 'fmi', 'oc'], 'DTC.ofFields'))
    attempt('DtcLamp.get_status', lambda: method_unit(tr, LAMP, 'get_status', 'DtcLamp.get_status'))
    attempt('Dm1.parse_dtc_int', lambda: expr_unit(tr, DM1, '_parse_dm1_receive_data', 'dtc_int', 'Dm1.parse_dtc_int',
                                                    [('i', 'nat')], self_params={'_data': L}))
    for k in range(4):
        attempt(f'Dm1.send_byte{k}', lambda k=k: expr_unit(tr, DM1, '_send', 'call:self._data.append:0', f'Dm1.send_byte{k}', [('dtc', 'nat')], k))
    attempt('Dm1.send_pf', lambda: expr_unit(tr, DM1, '_send', 'call:self._ca.send_pgn:1', 'Dm1.send_pf', [], self_params={'_pgn': 'nat'}))
    attempt('Dm1.send_ps', lambda: expr_unit(tr, DM1, '_send', 'call:self._ca.send_pgn:2', 'Dm1.send_ps', [], self_params={'_pgn': 'nat'}))
    for k, nm in enumerate(['pl', 'awl', 'rsl', 'mil']):
        attempt(f'Dm1.parse_lamp_{nm}', lambda k=k, nm=nm: expr_unit(tr, DM1, '_parse_dm1_receive_data', f"self._lamp_status['{nm}']", f'Dm1.parse_lamp_{nm}',
                                                                       [], self_params={'_data': L}))
    attempt('Dm22.send_request', lambda: method_unit(tr, DM22, '_send_request', 'Dm22.send_request', self_params={'_pgn': 'nat'}))
    # --- J1939-21 frames and field extraction (C01, C03, C06, C09)
    attempt('Tp21.buffer_hash', lambda: method_unit(tr, D21, '_buffer_hash', 'Tp21.buffer_hash'))
    for m, ln, pt in [('__send_tp_dt', 'Tp21.dt', {'data': L}), ('__send_tp_abort', 'Tp21.abort', {}), ('__send_tp_cts', 'Tp21.cts', {}),
                      ('__send_tp_eom_ack', 'Tp21.eom_ack', {}), ('__send_tp_rts', 'Tp21.rts', {}), ('__send_tp_bam', 'Tp21.bam', {})]:
        attempt(ln, lambda m=m, ln=ln, pt=pt: method_unit(tr, D21, m, ln, param_types=pt))
    d = [('data', L)]
    attempt('Tp21.cm_pgn', lambda: expr_unit(tr, D21, '_process_tp_cm', 'pgn', 'Tp21.cm_pgn', d))
    attempt('Tp21.cm_control', lambda: expr_unit(tr, D21, '_process_tp_cm', 'control_byte', 'Tp21.cm_control', d))
    attempt('Tp21.rts_size', lambda: expr_unit(tr, D21, '_process_tp_cm', 'message_size', 'Tp21.rts_size', d, 0))
    attempt('Tp21.rts_packets', lambda: expr_unit(tr, D21, '_process_tp_cm', 'num_packages', 'Tp21.rts_packets', d, 0))
    attempt('Tp21.rts_max', lambda: expr_unit(tr, D21, '_process_tp_cm', 'max_num_packages', 'Tp21.rts_max', d, 0))
    attempt('Tp21.cts_packets', lambda: expr_unit(tr, D21, '_process_tp_cm', 'num_packages', 'Tp21.cts_packets', d, 1))
    attempt('Tp21.cts_next', lambda: expr_unit(tr, D21, '_process_tp_cm', 'next_package_number', 'Tp21.cts_next', d, 0, as_int=True))
    attempt('Tp21.bam_size', lambda: expr_unit(tr, D21, '_process_tp_cm', 'message_size', 'Tp21.bam_size', d, 1))
    attempt('Tp21.bam_packets', lambda: expr_unit(tr, D21, '_process_tp_cm', 'num_packages', 'Tp21.bam_packets', d, 4))
    attempt('Tp21.num_packets', lambda: expr_unit(tr, D21, 'send_pgn', 'num_packets', 'Tp21.num_packets', [('message_size', 'nat')]))
    attempt('Tp21.notify_pgn_value', lambda: expr_unit(tr, D21, 'notify', 'pgn_value', 'Tp21.notify_pgn_value', [('pgn', ('obj', PGN))]))
    # --- J1939-22 frames and field extraction (C02, C03, C11)
    attempt('Tp22.buffer_hash', lambda: method_unit(tr, D22, '_buffer_hash', 'Tp22.buffer_hash'))
    attempt('Tp22.buffer_hash_mpg', lambda: method_unit(tr, D22, '_buffer_hash_mpg', 'Tp22.buffer_hash_mpg'))
    attempt('Tp22.buffer_unhash_mpg', lambda: method_unit(tr, D22, '_buffer_unhash_mpg', 'Tp22.buffer_unhash_mpg'))
    attempt('Tp22.cm', lambda: method_unit(tr, D22, '__send_tp_cm', 'Tp22.cm'))
    for m, ln in [('__send_tp_abort', 'Tp22.abort'), ('__send_tp_rts', 'Tp22.rts'), ('__send_tp_cts', 'Tp22.cts'),
                  ('__send_tp_eom_status', 'Tp22.eom_status'), ('__send_tp_eom_ack', 'Tp22.eom_ack'), ('__send_tp_bam', 'Tp22.bam')]:
        attempt(ln, lambda m=m, ln=ln: method_unit(tr, D22, m, ln))
    attempt('Tp22.dt', lambda: method_unit(tr, D22, '__send_tp_dt', 'Tp22.dt', self_params={'_LUT_FD_DLC': L}, param_types={'data': L}))
    for tgt, ln, occ in [('control_byte', 'Tp22.cm_control', 0), ('session_num', 'Tp22.cm_session', 0), ('message_size', 'Tp22.cm_size', 0),
                         ('segment_num', 'Tp22.cm_segment', 0), ('pgn', 'Tp22.cm_pgn', 0), ('num_segments', 'Tp22.cm_byte7', 0)]:
        attempt(ln, lambda tgt=tgt, ln=ln, occ=occ: expr_unit(tr, D22, '_process_tp_cm', tgt, ln, d, occ))
    for tgt, ln in [('session_num', 'Tp22.dt_session'), ('segment_num', 'Tp22.dt_segment')]:
        attempt(ln, lambda tgt=tgt, ln=ln: expr_unit(tr, D22, '_process_tp_dt', tgt, ln, d))
    attempt('Tp22.num_segments', lambda: expr_unit(tr, D22, 'send_pgn', 'num_segments', 'Tp22.num_segments', [('message_size', 'nat')]))
    cp = [('cpg_tos', 'nat'), ('cpg_tf', 'nat'), ('cpg_cpgn', 'nat')]
    for k in range(3):
        attempt(f'Mpg.hdr{k}', lambda k=k: expr_unit(tr, D22, '__send_multi_pg', 'call:data.append:0', f'Mpg.hdr{k}', cp, k))
    attempt('Mpg.cpgn_pdu1', lambda: expr_unit(tr, D22, 'send_pgn', 'cpgn', 'Mpg.cpgn_pdu1', [('pgn', ('obj', PGN))], 0))
    for tgt, ln in [('tos', 'Mpg.tos'), ('trailer_format', 'Mpg.tf'), ('cpgn', 'Mpg.cpgn'), ('payload_length', 'Mpg.len')]:
        attempt(ln, lambda tgt=tgt, ln=ln: expr_unit(tr, D22, '_process_multi_pg', tgt, ln, d))
    # --- CA (C13, C14, C04)
    attempt('Ca.request_pgn', lambda: expr_unit(tr, CA, '_process_request', 'pgn', 'Ca.request_pgn', d))
    attempt('Ca.request_data', lambda: expr_unit(tr, CA, 'send_request', 'data', 'Ca.request_data', [('pgn', 'nat')]))
    # --- DM14 (C17..C19)
    attempt('Dm14.q_dm15_seed', lambda: expr_unit(tr, Q14, '_parse_dm15', 'seed', 'Dm14.q_dm15_seed', d))
    attempt('Dm14.q_dm15_status', lambda: expr_unit(tr, Q14, '_parse_dm15', 'status', 'Dm14.q_dm15_status', d))
    attempt('Dm14.q_dm15_error', lambda: expr_unit(tr, Q14, '_parse_dm15', 'error', 'Dm14.q_dm15_error', d))
    attempt('Dm14.s_command', lambda: expr_unit(tr, S14, 'parse_dm14', 'self.command', 'Dm14.s_command', d))
    attempt('Dm14.s_pointer_type', lambda: expr_unit(tr, S14, 'parse_dm14', 'self.pointer_type', 'Dm14.s_pointer_type', d))
    return tr


def pgn_from_mid(tr, PGN, MID):
    m = PGN.methods['from_message_id']
    body = [s for s in strip_doc(m.body) if not (isinstance(s, ast.If) and 'isinstance' in ast.unparse(s.test))]
    fn = Fn(tr, PGN, m, selfmode='ctor', params={'mid': ('obj', MID)})
    fn.ret_type = None

    def k():
        missing = [f for f in PGN.fields if 'self.' + f not in fn.env]
        if missing:
            raise TErr(f"from_message_id leaves {missing} unassigned")
        return "{ " + ", ".join(f"{san(f)} := {fn.selfvar(f)}" for f in PGN.fields) + " }"
    text = fn.block(body, k)
    tr.add_def('PGN.from_message_id', f"def PGN.from_message_id (mid : MessageId) : PGN :=\n{indent(text)}\n")
    tr.units['PGN.from_message_id'] = dict(params=[('mid', ('obj', MID))], ret=('obj', PGN), src='ParameterGroupNumber.from_message_id', minlen={},
                                           kind='from_mid', pycls='ParameterGroupNumber', pymod=PGN.module.pymod.__name__)


# ------------------------------------------------------------------------------------------------
HEADER = """/- GENERATED by tools/py2lean.py from the working tree of the repository — do not edit. -/
import J1939.Model.Basic
set_option linter.unusedVariables false
namespace J1939.Gen
open J1939

structure PgnReq where
  dp : Nat
  pf : Nat
  ps : Nat
  prio : Nat
  data : List Nat
deriving DecidableEq, Repr, Inhabited

"""

STRUCTS = ['MessageId', 'ParameterGroupNumber', 'Name', 'DTC']


def show_fn(t):
    """lean expression (a function) rendering a value of type t as a canonical string"""
    if t == 'nat': return "(fun (x : Nat) => toString x)"
    if t == 'int': return "(fun (x : Int) => toString x)"
    if t == 'bool': return "(fun (x : Bool) => if x then \"True\" else \"False\")"
    if t == 'list': return "(fun (x : List Nat) => showList x)"
    if t == 'frame': return "(fun (x : Frame) => s!\"frame {x.id} {if x.ext then 1 else 0} {if x.fd then 1 else 0} {showList x.data}\")"
    if t == 'pgnreq': return "(fun (x : PgnReq) => s!\"pgn {x.dp} {x.pf} {x.ps} {x.prio} {showList x.data}\")"
    if is_obj(t):
        ci = t[1]
        fs = " ".join("{x." + san(f) + "}" for f in ci.fields)
        return f"(fun (x : {ci.lean}) => s!\"{ci.lean} {fs}\")"
    if isinstance(t, tuple) and t[0] == 'tuple':
        parts = []
        for i, et in enumerate(t[1]):
            proj = "x" + "".join(".2" for _ in range(i)) + (".1" if i < len(t[1]) - 1 else "")
            parts.append("{" + f"{show_fn(et)} ({proj})" + "}")
        return f"(fun (x : {lean_type(t)}) => s!\"({' '.join(parts)})\")"
    if isinstance(t, tuple) and t[0] == 'opt':
        return f"(fun (x : {lean_type(t)}) => match x with | none => \"none\" | some y => {show_fn(t[1])} y)"
    raise TErr(f"show {t}")


def emit(tr, outdir):
    os.makedirs(outdir, exist_ok=True)
    out = [HEADER]
    for cname in STRUCTS:
        out.append(tr.struct_decl(tr.classes[cname]))
    for name, text in tr.defs:
        out.append(text)
    out.append("end J1939.Gen\n")
    codec = "\n".join(out)
    # evaluator: unit name + args -> canonical string
    ev = ["/- GENERATED by tools/py2lean.py — do not edit. -/", "import J1939.Gen.Codec", "namespace J1939.Gen", "open J1939", "",
          "def showList (l : List Nat) : String := \"[\" ++ \",\".intercalate (l.map toString) ++ \"]\"", "",
          "inductive Arg where", "  | n : Nat → Arg", "  | l : List Nat → Arg", "deriving Repr", "",
          "def evalUnit (name : String) (args : List Arg) : Option String :=", "  match name, args with"]
    for uname, u in tr.units.items():
        pats, call = [], []
        for pn, pt in u['params']:
            if pt == 'nat':
                pats.append(f".n {pn}"); call.append(pn)
            elif pt == 'list':
                pats.append(f".l {pn}"); call.append(pn)
            elif is_obj(pt):
                ci = pt[1]
                fns = [f"{pn}_{san(f)}" for f in ci.fields]
                pats += [f".n {x}" for x in fns]
                call.append("{ " + ", ".join(f"{san(f)} := {x}" for f, x in zip(ci.fields, fns)) + f" : {ci.lean} }}")
            else:
                raise TErr(f"unit {uname}: parameter type {pt}")
        pat = "[" + ", ".join(pats) + "]"
        app = f"{uname} " + " ".join(f"({c})" if ' ' in c else c for c in call) if call else uname
        ev.append(f"  | \"{uname}\", {pat} => some ({show_fn(u['ret'])} ({app}))")
    ev.append("  | _, _ => none")
    ev.append("")
    ev.append("def unitNames : List String := [" + ", ".join(f'"{u}"' for u in tr.units) + "]")
    ev.append("end J1939.Gen\n")
    meta = dict(units={k: dict(params=[(pn, (pt if isinstance(pt, str) else pt[1].lean)) for pn, pt in u['params']],
                                 ret=str(u['ret'] if isinstance(u['ret'], str) else lean_type(u['ret'])), src=u['src'], minlen=u['minlen'],
                                 fields={pn: [san(f) for f in pt[1].fields] for pn, pt in u['params'] if is_obj(pt)},
                                 py={x: u[x] for x in ('kind', 'pyexpr', 'pycls', 'pymod', 'pymethod', 'pyparams', 'nself', 'pyattr') if x in u})
                       for k, u in tr.units.items()},
                failed=tr.failed,
                structs={tr.classes[c].lean: [san(f) for f in tr.classes[c].fields] for c in STRUCTS},
                struct_attrs={tr.classes[c].lean: dict(cls=c, mod=tr.classes[c].module.pymod.__name__,
                                                       attrs=[(('_' + c + f) if (f.startswith('__') and not f.endswith('__')) else f) for f in tr.classes[c].fields])
                              for c in STRUCTS})
    return codec, "\n".join(ev), meta


def write_if_changed(path, text):
    if os.path.exists(path) and open(path).read() == text:
        return False
    with open(path, 'w') as f:
        f.write(text)
    return True


def main():
    repo = sys.argv[1] if len(sys.argv) > 1 else '/repo'
    outdir = sys.argv[2] if len(sys.argv) > 2 else os.path.join(os.path.dirname(__file__), '..', 'lean', 'J1939', 'Gen')
    tr = build(repo)
    codec, ev, meta = emit(tr, outdir)
    ch1 = write_if_changed(os.path.join(outdir, 'Codec.lean'), codec)
    ch2 = write_if_changed(os.path.join(outdir, 'Eval.lean'), ev)
    write_if_changed(os.path.join(outdir, 'units.json'), json.dumps(meta, indent=1, sort_keys=True))
    print(json.dumps(dict(units=len(tr.units), failed=tr.failed, changed=bool(ch1 or ch2))))


if __name__ == '__main__':
    main()
