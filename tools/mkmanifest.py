#!/usr/bin/env python3
"""Writes MANIFEST.json from the table below (one place to keep claims, levels and notes consistent)."""
import json, os
ROOT = os.path.dirname(os.path.dirname(os.path.abspath(__file__)))

CLAIMS = {
    'C15': dict(
        text="Proof (Lean 4): identifier, PGN and NAME codecs — the definitions regenerated from message_id.py / parameter_group_number.py / "
             "name.py on every run — are exact inverses on their whole domain (all 2^29 identifiers, all field values, all 2^64 NAME values, "
             "all accepted field tuples, 8-byte little-endian form) with every field at its SAE position; the order of two NAME values is the "
             "order of their bytes from the MOST significant byte down (c15_name_order_is_msb_first), never the transmitted list order; full strength.",
        note="Trusted: Lean kernel; translator py2lean (validated differentially against the real classes on every run); Python ints as Nat. "
             "That the arbitration handler compares these values is the C04 model (c04_contender_value_exact, lock-step correspondence) and the "
             "C15 arbitration oracle on a real controller application (NAME pairs whose value order and byte-list order differ).",
        technique="Lean 4 theorems over source-regenerated definitions (omega after bit-op normal forms) + translator self-validation",
        design="§8 C15"),
    'C12': dict(
        text="Proof (Lean 4) about the ECU core model (timer list, subscriber list, one pass of the background loop, callbacks that add/remove "
             "timers, subscribe/unsubscribe and take time): not-early, wake-up covers the earliest deadline, no drift / once per period, "
             "remove_timer/unsubscribe remove every registration, never called while unregistered, one-shot removed, every due timer is served "
             "in the pass (no suppression), independence; all for every reachable state (invariant WF proved preserved), every time and every "
             "callback table.  The model is tied to electronic_control_unit.py by lock-step differential execution (1200 / 20000 histories).",
        note="Proved for the code as repaired by the three fix: commits (D7, D8, D9 — see known_findings.json). Trusted: Lean kernel; the "
             "correspondence is sampling; periods > 0; callbacks behave as scripted; the DLL part of the pass is idle in this model (C07/C09 "
             "cover it); floating-point time is replaced by exact microseconds.",
        technique="Lean 4 invariant proofs over a hand-written model + lock-step correspondence with the real ECU under a virtual clock",
        design="§8 C12"),
    'C16': dict(
        text="Proof (Lean 4): DTC pack/unpack is the identity on all 2^19 x 32 x 128 codes with conversion mode 0, the four bytes are the "
             "J1939-73 layout, all 5^4 lamp combinations survive (decide over the reflected tables), DM1 build->parse returns lamp states and "
             "the code list for EVERY non-empty list of in-range codes (induction over the list), built length never 6-byte-special 8, DM22 "
             "request bytes at the J1939-73 positions, stop_send leaves no timer of the sender callback and it is not called again.",
        note="Per-code arithmetic, lamp extraction and DM22 builder are regenerated from diagnostic_messages.py; list handling / length checks "
             "are Model/Dm1.lean tied by correspondence with Dm1._send/_receive; delivery through the transports is exercised end to end on two "
             "real stacks by the oracle (theorems for the transports: C01/C02/C11). Proved for the code as repaired by fix: commits D11, D12.",
        technique="Lean 4 theorems over source-regenerated codecs + list induction + decide over reflected lamp tables; correspondence; e2e oracle",
        design="§8 C16"),
    'C09': dict(
        text="Proof (Lean 4), J1939-21: single-step theorems for every state/record/frame — first CTS grants min(own max, RTS limit, total); "
             "later CTS grants min(negotiated window, remaining) for the next ungranted packet and the window never changes; a CTS opens a "
             "window of at most the granted number; a hold opens nothing; no TP.DT while waiting for CTS; the send-window loop (induction "
             "over the loop) emits consecutive packets, never beyond the wait-on packet, and returns to WAITING_CTS there; a BAM record emits "
             "exactly one TP.DT per due deadline and re-arms at now + interval.  Partial: the trace-level statement is the induction of these "
             "steps over a session (not yet a single theorem).  J1939-22: the first CTS grants min(own maximum, RTS limit, total segments) for "
             "segment 1; a busy (session, pair) is refused with BUSY and untouched; an in-order segment at the window border is answered by "
             "one CTS granting min(negotiated window, segments after the border), below the border by nothing; a CTS opens at the "
             "originator a window of at most the granted number, its own maximum and the rest of the message, a hold opens nothing "
             "(c09_22_*).  J1939-22 BAM pacing and the send loop are covered by correspondence/oracle only.",
        note="Model/Dll21.lean is tied to j1939_21.py by lock-step correspondence on recorded nominal and hostile scripts (tables dumped after "
             "every received frame) and its leaves are regenerated from the source; oracle: real stacks + an independent reference peer "
             "(windows, holds, silence after hold, RTS limits) with bus-trace analysis.",
        technique="Lean 4 single-step + loop-induction theorems over hand model with regenerated leaves; lock-step correspondence; reference-peer oracle",
        design="§8 C09"),
    'C10': dict(
        text="Proof (Lean 4), J1939-21: send_pgn (> 8 bytes) returns False iff the (SA, DA) pair is in the send table, a refused call emits "
             "nothing and leaves the state equal; an accepted call occupies exactly its own pair; RTS/BAM/TP.DT handling and the receive side "
             "of the background pass never touch the send table (inbound never consumes outbound capacity).  Partial: release within bounded "
             "time is C07's invariant.  J1939-22: an accepted long message takes exactly one free number of its kind and a refused one "
             "changes nothing (C02), no received frame touches either pool (C02), and every deletion of a send record by the pass — CTS "
             "timeout, acknowledgement timeout or arrival, peer abort (D22), end of a broadcast — returns exactly that record's number to "
             "the pool of its kind (c10_22_deleted_returns_number).  CONSERVATION OVER EVERY HISTORY (c10_22_conservation, Lemmas/Cons22): "
             "after ANY sequence of send_pgn calls (one-byte PS), received frames (any identifier/content) and background passes, every "
             "session record holds a number marked used in the pool of its kind, no two records of a kind share a number, and every used "
             "number belongs to a live record of that kind (invariant Cons: send table as lookup function; each model operation is one of "
             "three abstract transitions update / delete+release / take+insert; the receive path needs the repair of D29); corollaries "
             "c10_22_used_iff_held and c10_22_idle_means_full (empty send table => all 8 + 4 numbers free).  The history oracle "
             "additionally starts 8 + 4 sessions after every history on real stacks.",
        note="Same tie as C09. Oracle: histories of transfers with losses, injected peer aborts and silent peers on real stacks, every "
             "send_pgn result judged against a bus-only tracker of busy pairs, then full concurrency. Proved for the code as repaired by fix D1.",
        technique="Lean 4 theorems over hand model with regenerated leaves; lock-step correspondence; history oracle on real stacks",
        design="§8 C10"),
    'C07': dict(
        text="Proof (Lean 4), BOTH data link layers: a table invariant WF holds initially and is preserved by send_pgn, by EVERY received "
             "frame (any identifier, any data, also when the handler raises) and by the background pass; from a WF state the pass never "
             "raises and the wake-up it asks for is strictly in the future (no busy spin); by induction over ANY history of sends, frames "
             "and passes at any positive times the background thread never dies and never spins (c07_22_never_raises_never_spins and the "
             "J1939-21 analogue).  J1939-21: WF = unique keys, every record has a deadline, a record sending in a CTS window knows its "
             "wait-on packet; additionally no record whose deadline has passed is left by the pass (released or progressed and re-armed); "
             "all reflected timeouts <= 1.25 s.  J1939-22: WF additionally bounds session numbers by their pools, makes the stored chunks "
             "cover the segment count, keeps the next segment >= -1 (a hostile CTS with segment 0 makes Python index from the end — "
             "modelled), keeps every multi-PG buffer within one frame and both pools at their size, which is exactly what rules out "
             "KeyError / IndexError in the pass.  Partial: for J1939-22 'no overdue record is left' is not a theorem (correspondence and "
             "oracle); timers still firing on time is C12's theorem composed in the oracle, not in Lean.",
        note="Induction over the key snapshot of both loops and over the send-window loop. Proved for the code as repaired by fix D1 "
             "(without it the no-spin theorem is false: late CTS). Tie: lock-step correspondence on hostile scripts with table dumps after "
             "every frame; oracle: real ECU under 1..60 alphabet frames incl. sessions to an address nobody owns.",
        technique="Lean 4 invariant proofs (loop inductions) over hand model with regenerated leaves; lock-step correspondence; hostile-traffic oracle",
        design="§8 C07"),
    'C01': dict(
        text="Proof (Lean 4), session level for EVERY payload length/content, window and time: short messages are one frame with the composed "
             "identifier and unchanged payload and are handed up once with priority/PGN/source; the 7-byte segmentation round-trips (first len "
             "bytes of the concatenated payloads = message; 255 packets <=> 1785 bytes); an accepted long message is announced by one RTS/BAM "
             "with exact size, packet count, window limit and PGN and its data frames are the TP.DT frames of consecutive packets of the "
             "payload; the responder, fed RTS then those frames in order at arbitrary times, delivers the byte-identical payload exactly once at "
             "the last packet and frees the pair (induction over the packets); the end-of-message ack is the only other PDU reported; BROADCAST END "
             "TO END (c01_bam_end_to_end): an accepted 9..1785-byte broadcast served by n due passes puts exactly BAM + n TP.DT frames on the bus "
             "and deletes the record, and ANY node receiving those frames through notify() (any prior state, filter, times, configuration) "
             "delivers PGN/source/255/byte-identical payload exactly once and keeps no record (two-party composition through the wire bytes: "
             "identifier parse, BAM decode, dispatch, reassembly); CONNECTION MODE END TO END (c01_rtscts_end_to_end, c01_rtscts_round, "
             "c01_tp_dispatch): accepted 9..1785-byte destination-specific message, responder handles the RTS, originator the CTS, then "
             "rounds (originator pass -> responder handles its TP.DT in order -> originator handles the answers) under ANY schedule that "
             "finds the record due, any two window limits >= 1, with or without minimum packet interval: after at most n+1 rounds the "
             "message was delivered exactly once byte-identical, exactly one EndOfMsgACK was reported, and neither side keeps a record "
             "(invariant over rounds: originator sent j packets and may send up to wn, responder holds exactly those j and its window ends "
             "at wn; induction on the packets left).  Partial: timeouts/loss are C06's, handlers are atomic here (pre-emption is C08's), and "
             "the composition over 3-4 stacks with concurrent sessions and all bus schedules (incl. latency 0 re-entrancy) is covered by the "
             "lock-step correspondence (atomic handlers) and the network oracle on real stacks.",
        note="Proved for the code as repaired by fix D23 (BAM PGN of a PDU1 group). Tie: regenerated leaves + lock-step correspondence on "
             "recorded multi-node scripts; oracle: 2-4 real stacks, concurrent transfers both directions, windows 1..255, latencies incl. 0.",
        technique="Lean 4 induction over packets / loop invariants over hand model with regenerated leaves; lock-step correspondence; network oracle",
        design="§8 C01"),
    'C03': dict(
        text="Proof (Lean 4), J1939-21: every TP.CM/TP.DT frame the stack builds equals the reference layout written from the standard "
             "(identifier PF/PS/SA/priority, control bytes 16/17/19/32/255, little-endian size and PGN, packet counts, 0xFF fill, 1-based "
             "sequence number + 7 bytes + 0xFF padding, always 8 bytes) for all arguments; the receive path's field extraction inverts the "
             "reference RTS/CTS; any conforming originator's frame sequence (reference TP.DT frames in order, any pacing) is reassembled to the "
             "message exactly once; the timing envelope (150 ms replies, 200 ms packet spacing, 0.5 s holds) is inside the reflected timeouts.  "
             "Partial: J1939-22 (FD) layouts are tied by translator validation and oracle only.",
        note="Model/Ref.lean and the Python reference peer are the trusted statement of the SAE layouts. Oracle: real stack against the "
             "reference peer in all four roles with windows, holds, latencies, BAM spacing.",
        technique="Lean 4 equalities between regenerated builders and an independent reference + responder trace induction; reference-peer oracle",
        design="§8 C03"),
    'C06': dict(
        text="Proof (Lean 4), J1939-21: a receive record fed ANY fewer-than-all 8-byte TP.DT frames (any content: arbitrary losses) delivers "
             "nothing and never completes — truncated or shifted payloads are impossible; fed all packets in order it delivers the exact payload "
             "once; a record whose deadline passed is removed by the pass, with TP.Conn_Abort reason 3 + session PGN for connection mode (both "
             "sides) and nothing for broadcast; all reflected timeouts <= 1.25 s; the pair is free afterwards.  J1939-22: an FD.TP.DT segment that is not the one expected next (after a "
             "loss, duplicate or reordering) changes nothing; the end-of-message status hands a message up ONLY when the record holds exactly "
             "the announced number of bytes with the session's size and segment count, otherwise it aborts (reason 2), hands up and "
             "acknowledges nothing and removes the record (repair of D4); with C02's reception theorem: exact payload or nothing.  Partial: "
             "J1939-22 give-up times and abort contents after silence are covered by correspondence (lossy scripts) and oracle.",
        note="Composes with C07 (no record with a past deadline survives a pass). Oracle: every transfer shape x lost k-th frame / silent "
             "peer from k-th frame (exhaustive in the thorough tier), give-up times, abort contents, follow-up transfer.",
        technique="Lean 4 byte-count induction over arbitrary surviving frames + per-record pass theorems; lossy-script correspondence; fault-enumeration oracle",
        design="§8 C06"),
    'C13': dict(
        text="Proof (Lean 4) about Model/Ca.lean: in every state but NORMAL send_message / send_pgn / send_request (any PGN but 0xEE00) raise and "
             "emit nothing, the request for address claim goes out from 254; in NORMAL all three carry exactly the held address; over EVERY "
             "history of claim-timer firings and received claims (any source, any NAME bytes — induction over the history) an operational CA "
             "holds exactly the address it announced and (after fix D28) never an address above 253 (c13_never_at_null), a CA without address "
             "reports 254 and accepts nothing destination-specific; every frame the claim machinery originates is an address-claimed frame from the announced / held / null address.",
        note="Tie: lock-step correspondence of the real ControllerApplication (fake ECU recording calls) with the model on random histories; "
             "oracle: real CA on a real ECU through claim histories, every entry point and service (Dm1, Dm11, Dm22, DM14/16), loss judged "
             "from the bus. Handler atomicity (histories, not thread schedules). OPEN KNOWN FINDING D30 (known_findings.json): a broadcast "
             "transfer that is running when the address is lost goes on from the lost address — reproduced and printed as KNOWN-FINDING on "
             "every run; the theorems speak about the CA's entry points, not about sessions already handed to the data link layer.",
        technique="Lean 4 invariant by induction over histories + guard theorems; lock-step correspondence; history oracle",
        design="§8 C13"),
    'C14': dict(
        text="Proof (Lean 4): the three request bytes are the little-endian PGN and decode back for all 2^24 values; an operational CA's "
             "send_request(0, pgn, dest) becomes ONE J1939-21 frame priority 6 | 0xEA | dest | own address; at a CA the request callbacks run "
             "with exactly (sa, dest, pgn) iff the CA is operational AND owns dest (or dest is global) AND pgn is not 0xEE00, for 0xEE00 such a CA "
             "answers with its address-claimed frame, every other CA does nothing; the J1939-21 layer passes a request on iff its destination is "
             "global or locally accepted and never creates state or transmits; composed END TO END (c14_request_end_to_end): requesting CA -> "
             "the one frame -> notify() of any receiving stack -> every CA behind it runs its callbacks with exactly (requester, destination, "
             "requested PGN) iff operational and addressed.",
        note="data_page = 0 for the request frame's own PGN (scope note in DESIGN §8 C14). Tie: correspondence (CA) + Dll21 correspondence; "
             "oracle: requester and 1-3 responder CAs in every claim state on real stacks.",
        technique="Lean 4 codec + decision-logic theorems over regenerated leaves and hand model; correspondence; dispatch oracle",
        design="§8 C14"),
    'C04': dict(
        text="Proof (Lean 4), handler level for every CA state and every received claim: a claim for another address is ignored; a CA at `a` "
             "keeps `a` and re-sends its claim against any higher NAME (so the lowest NAME never leaves), ignores its own NAME; against a lower "
             "NAME a single-address CA goes cannot-claim announcing it from 254, an arbitrary-address-capable one announces a+1 and waits for a "
             "veto, neither reports the contested address any more; claim progress (immediate range operational at once, veto range after one "
             "250 ms period); the compared value is exactly the sender's 64-bit NAME (C15 round trip); an AAC CA with no address left goes "
             "cannot-claim (fix D28).  NETWORK LEVEL (Model/CaNet.lean: any number of nodes, per-receiver FIFO of claims, ANY interleaving of "
             "timer firings, deliveries and requests for address claimed): invariant NetInv (for two nodes at one address with different "
             "NAMEs a claim of one is on its way to the other) preserved by every event (step_inv, run_inv), hence c04_unique_at_quiescence — "
             "from any network in which nobody has claimed yet, whenever all claims on the bus are handled, two nodes at the same address "
             "(operational or waiting for a veto) have the same NAME; c04_at_kept_by_step — a node stays at its address through every event "
             "except handling a claim for it from a lower NAME; c04_claim_dispatch — both data link layers hand the frame a CA sends to the CAs "
             "of every receiving stack as a claim from its source, whatever those CAs accept (the delivery step of the network model).  Partial: settling within bounded time and latency-0 re-entrancy are "
             "established by the network oracle on real stacks; CAs started with claiming bypassed are outside the theorem.",
        note="Proved for the code as repaired by fix D10 (state before send). Oracle: 2-4 CAs, NAMEs differing in one field at a time, AAC mix, "
             "start/claim-delay grid around the veto window, latencies {0, 1, 5 ms}.",
        technique="Lean 4 handler theorems + network invariant by induction over events, hand model with regenerated NAME codec; correspondence; network oracle incl. re-entrant delivery",
        design="§8 C04"),
    'C05': dict(
        text="Proof (Lean 4): on the J1939-21 layer a PDU1 frame whose destination is neither global nor locally accepted — any PGN incl. TP "
             "RTS/CTS/DT/abort, request, claim — returns the SAME state and no output; by induction any foreign session leaves a bystander "
             "unchanged and silent; the ECU dispatch hands a PDU to exactly the matching registrations (no address / integer address or global / "
             "predicate or global), once each, in order; destination 255 matches every registration; a CA without an address accepts nothing "
             "destination-specific, an operational one exactly its address and 255; the listener forwards iff extended and not "
             "remote/error/stopped (all 16 combinations).  J1939-22: the same no-op and bystander theorems for the FD layer (any PGN incl. "
             "FD.TP.CM/DT and multi-PG), and a PDU2 frame is a broadcast handed up with destination 255 whatever its group extension "
             "(repair of D18).  Partial: multi-PG unpacking towards several CAs of one ECU is exercised by the oracle.",
        note="Proved/validated for the code as repaired by fix D18. Tie: Dll21 hostile-script correspondence, ECU dispatch scripts with int/"
             "predicate/unfiltered registrations (incl. address 0), CA scripts, the real MessageListener with real can.Message flag combinations.",
        technique="Lean 4 no-op / decision-logic theorems + induction over foreign frame sequences; correspondence; addressing oracle on both DLLs",
        design="§8 C05"),
    'C02': dict(
        text="Proof (Lean 4) about Model/Dll22.lean (the whole FD data link layer: FD.TP RTS/CTS/EOM/BAM, session pools, multi-PG): a message "
             "of more than 60 bytes is refused exactly when no session number of its kind is free, and then nothing is emitted and the state "
             "is EQUAL; an accepted one takes exactly one free number (other flags unchanged, pool size kept); NO received frame of any kind "
             "changes either pool (inbound never consumes outbound capacity); the advertised capacity is the reflected 8 + 4; DATA PATH: the "
             "stored chunks are the consecutive 60-byte pieces of the message and concatenate to it (every length); the FD.TP.DT frame the "
             "stack builds for segment k yields, through the receive path's own field extraction, the session, segment number k+1 and the "
             "k-th chunk (+ padding on the last segment only); a responder record fed the segment frames of ANY conforming originator in "
             "order at arbitrary times and then the end-of-message status hands the message up exactly once, byte-identical, with the "
             "announced PGN, removes the record and never touches the send table (induction over the segments; broadcast and connection "
             "mode); BROADCAST END TO END (c02_bam_end_to_end, c02_bam_originator_frames): an accepted broadcast of 61 .. 2^24-1 bytes takes "
             "number i < 4 from the broadcast pool; n+1 due passes put exactly announcement, n FD.TP.DT frames in order and the end-of-message "
             "status on the bus, delete the record and return i; any node without a stale record for (i, source) handling these frames at "
             "arbitrary times delivers the message exactly once byte-identical with the announced PGN and keeps no record (two parties "
             "composed through the frame bytes: C03-22 layouts and decoders, segment frames, reception); CONNECTION MODE END TO END "
             "(c02_rtscts_end_to_end, c02_rtscts_round, fd_dispatch): accepted destination-specific message of 61 .. 2^24-1 bytes takes "
             "number i < 8; responder receives the RTS through notify(), originator the CTS, then rounds (originator pass -> responder "
             "receives its FD.TP.DT segments and finally the end-of-message status through notify() -> originator receives CTS / "
             "acknowledgement through notify()) under ANY schedule that finds the record due, any two window limits: after at most n+1 "
             "rounds delivered exactly once byte-identical, one acknowledgement reported, no record on either side, number i returned to "
             "the RTS/CTS pool (invariant over windows, induction on the segments left; with or without a minimum packet interval at the originator).  "
             "Partial: timeouts/loss are C06's, pre-emption C08's; the interleaving of concurrent sessions on 2-3 stacks is established by "
             "the lock-step correspondence (nominal, hostile, lossy scripts with table dumps) and the network oracle, not by one theorem.",
        note="Proved/validated for the code as repaired by fix commits D5+D3, D22, D2, D24, D4, D23b (known_findings.json). Trusted: Lean kernel; "
             "numpy chunking modelled as 60-byte chunks (differential-tested); handler atomicity (latency > 0 as the property states).",
        technique="Lean 4 theorems over a hand model of j1939_22.py with regenerated leaves; lock-step correspondence; network oracle on real stacks",
        design="§8 C02"),
    'C11': dict(
        text="Proof (Lean 4): the reflected FD length table maps every size 0..64 to the next legal CAN FD length; every multi-PG frame the "
             "model builds has a legal length <= 64 whenever the groups fit; the buffer invariant fill = sum(4 + len) <= 64 is preserved by "
             "placing a group of <= 60 bytes (induction over the first-fit search); buffers are keyed by (format, counter, source, destination) "
             "injectively, so groups of different destinations or formats never share a frame; unpack(pack(groups) ++ padding) delivers every "
             "group of 1..60 bytes once, in order, with its own 18-bit PGN and identical bytes, for EVERY list of groups (induction) and the "
             "padding the builder appends (three zero bytes then 0xAA) is skipped; a placed group sits in exactly one buffer whose deadline is "
             "<= its own and the thread is woken unless that buffer already had an earlier deadline; the pass sends every due buffer and asks "
             "to be woken no later than any remaining deadline.  End to end (c11_frame_end_to_end, c11_immediate_end_to_end, "
             "c11_flush_end_to_end): send_pgn without a limit, or the pass over a due buffer, puts exactly one extended frame on the bus and "
             "ANY receiving stack (any state, any time) that accepts the destination hands its subscribers exactly those groups, identifier "
             "parsed through the real dispatch; placing adds a group to the waiting set exactly once and flushing removes exactly the buffer's "
             "groups (c11_place_once, multiset counts over every history).  Partial: the composition of these steps over the thread's sleep/wake schedule "
             "('on the bus no later than the limit plus scheduling latency') is checked by the oracle on real stacks, not one Lean theorem.",
        note="Proved for the code as repaired by fix D6 (wake-up on a new/earlier deadline). Tie: header arithmetic and buffer keys are "
             "regenerated from j1939_22.py; packing/first-fit/serving/unpacking in Model/Dll22.lean tied by lock-step correspondence on "
             "multi-PG scripts; oracle with an independent decoder on every bus frame incl. FBFF, timer-callback submission, gaps around the "
             "5 s idle wake-up.",
        technique="Lean 4 list induction + decide over the reflected DLC table + first-fit loop induction; lock-step correspondence; reference-decoder oracle",
        design="§8 C11"),
    'C17': dict(
        text="Proof (Lean 4) about Model/Dm14.lean (MemoryAccess facade, Dm14Query, DM14Server and the live-iterated ECU subscriber list, "
             "message level): value<->byte conversion is exact for every object size > 0, every count and all in-range values, unsigned and "
             "two's-complement reading (list induction); whole-transaction theorems between ANY clean client and ANY clean server without "
             "seed/key, for all parameters — read of 1..7 bytes, read of 8..255 bytes (multi-packet DM16 + end-of-message acknowledgement), "
             "write of 1..255 bytes: the application is consulted once with exactly the client's command / 32-bit address / pointer type / "
             "count / requester, the client's call returns exactly the served bytes (raw) or their values, respond() returns exactly the "
             "little-endian bytes of the written values, and BOTH nodes are clean afterwards (three state machines idle, queues empty, only "
             "the facade subscribed, server bound to nobody); by induction any sequence of such transactions (c17_back_to_back); the "
             "configuration of a node is invariant under every operation; SEED/KEY: opening DM14 -> seed DM15 (any seed the generator returns) "
             "-> key DM14 (the client's key function of exactly that seed) -> application consulted once with command/address/pointer type/"
             "count/requester/key/seed, after which the server is in the same Accepted state as without seed/key, so the serving, data and "
             "closing lemmas apply unchanged (c17_seedkey_handshake); composed into the whole-transaction theorems WITH seed/key for the read "
             "of 1..7 bytes, the read of 8..255 bytes and the write (c17_read_short_seedkey, c17_read_long_seedkey, c17_write_seedkey).  "
             "Partial: the back-to-back induction is stated for servers without seed/key; the composition with the transport (frame "
             "level) is by the oracle.",
        note="Proved for the code as repaired by D13, D14, D15, D16, D21 (each theorem is false on the unrepaired code: 8-byte reads, count > 1, "
             "back-to-back). Tie: lock-step correspondence of the model with the REAL three classes on a real ECU/CA (blocking calls run in "
             "cooperative helper threads; recorded multi-node scripts incl. hostile PDUs, resets, timeouts, address 0); oracle: real objects "
             "over two real J1939-21 stacks in virtual time.",
        technique="Lean 4 symbolic execution lemmas per protocol step composed into transaction theorems + list inductions; lock-step correspondence; e2e oracle",
        design="§8 C17"),
    'C18': dict(
        text="Proof (Lean 4), same model: KEY GATE — with a seed/key algorithm the facade calls the proceed callback / notification only in "
             "the step in which the key DM14 arrives and only if key = f(seed sent); the receive path never sends DM16 (data leaves only "
             "through respond()); respond() outside WAIT_RESPONSE sends nothing and changes nothing; ERRORS — for EVERY 24-bit code and "
             "EDCP 6/7 the 'operation failed' DM15 queues exactly that code at the waiting client and the blocked read/write raises it; "
             "wrong key is answered 0x1003, refusal 0x100; TIMEOUT — a caller that heard nothing raises 'No response'; RECOVERY — after any "
             "end of a call (result, device error, timeout in any phase) facade and query are idle, no handler is left, and the next read is "
             "accepted; after a refusal / wrong key the server is idle, bound to nobody, not busy and (D26) listening again.  Partial: the "
             "key-gate is a step theorem plus the respond() guard, not an invariant over all reachable states; exception texts are tied by "
             "correspondence (known-code flag) and the oracle.",
        note="Proved for the code as repaired by D16, D17, D26, D27. Same tie as C17. Oracle: histories of <= 6 operations mixing failures and "
             "successes, all error kinds, absent server.",
        technique="Lean 4 decision-logic / codec theorems over hand model with regenerated DM15 field extraction; lock-step correspondence; failure-history oracle",
        design="§8 C18"),
    'C19': dict(
        text="Proof (Lean 4), same model: while the server side of a node is bound to requester a (any state satisfying InTx: bound, not "
             "idle, not busy, 8-byte opening DM14) a DM14 from another source address — or from a with another pointer — handed to the node "
             "in ANY facade state and with ANY handlers registered leaves the node EXACTLY equal, runs neither callback, raises nothing and "
             "emits only DM15 'operation failed' PDUs addressed to the intruder (induction over the live subscriber loop); hence any number "
             "of intruding requests leave the running transaction's future unchanged (c19_intruders_noop); with nothing subscribed the "
             "request is not looked at; every server-side state the whole-transaction theorems of C17 go through (after the opening DM14, while "
             "a multi-packet DM16 is under way, while written data is awaited, while the closing DM14 is awaited) satisfies InTx.  Partial: "
             "InTx is proved for those transaction states, not as an invariant of all reachable states (e.g. histories with resets); the "
             "oracle injects at every bus frame.",
        note="Holds on the unchanged tree (no fix needed). Same tie as C17. Oracle: intruder after every bus frame of every shape, incl. requester "
             "address 0.",
        technique="Lean 4 no-op theorem by induction over the live-iterated subscriber list; lock-step correspondence; injection oracle",
        design="§8 C19"),
    'C08': dict(
        text="Proof (Lean 4), BOTH data link layers, about Model/Pre21.lean and Model/Pre22.lean (the background pass over key SNAPSHOTS of "
             "the session tables — and the multi-PG buffers on J1939-22 —, the receive thread handling a frame before the K-th lookup, K "
             "arbitrary; c08_pre_pass_ok, c08_22_pre_pass_ok): the receive thread never adds or removes a send session "
             "(keys and order equal for every frame), so the send snapshot stays valid; the receive loop over ANY stale key list skips "
             "vanished sessions and never raises; from a well-formed state the pre-empted pass raises nothing (the thread stays alive), keeps "
             "the tables well-formed and asks for a wake-up strictly in the future; by induction over any history of sends, frames and "
             "arbitrarily pre-empted passes the thread never dies; a receive session that is not due is left exactly as it is by the pass "
             "(no packet is lost to it); the J1939-21 receive thread never changes a table without requesting a pass, so a session it made "
             "due behind the pass is picked up at once; the ECU thread blocks on its wake-up queue only with a strictly positive timeout, for "
             "every wake-up time the link layer asked for (c08_wait_timeout_positive; queue.get raises on a negative one).  Partial: pre-emption INSIDE the handling of one session (line level), the ECU "
             "timer loop and the sleep/wake-up race are decided on the real code by the line-tracer oracle, not by theorems; 'same outcome' "
             "is established there as intact exactly-once delivery + idle tables + live thread.",
        note="Proved for the code as repaired by D19; D20 (J1939-22 state after send) found and repaired through the oracle. Tie: recorded "
             "scripts in which the REAL async_job_thread is pre-empted from a line tracer before its K-th lookup and the frame is handled "
             "re-entrantly, lock-step against tickPre; oracle: every executed source line x occurrence as pre-emption point with 0.2..5 ms "
             "holds on real stacks (exhaustive in thorough), two pre-emptions sampled; the ECU-pass scripts of C12 (timer pass + sleep decision, "
             "real _async_job_thread against Ecu.Core.pass) are part of this check's correspondence.",
        technique="Lean 4 loop inductions over stale snapshots + history induction; line-tracer pre-emption correspondence; exhaustive line-level oracle",
        design="§8 C08"),
}

NOT_YET = {}


def main():
    props = [json.loads(l) for l in open(os.path.join(ROOT, 'properties.jsonl'))]
    checks, na = [], []
    for p in props:
        pid = p['id']
        if pid in CLAIMS:
            c = CLAIMS[pid]
            checks.append(dict(property_id=pid, quick_cmd=f"./check {pid} --tier quick", thorough_cmd=f"./check {pid} --tier thorough",
                               evidence_file=f"evidence/{pid}.json", replay_cmd_template=f"./check {pid} --replay {{path}}",
                               engine="lean4-proof+correspondence",
                               level_claimed=dict(category='proof', text=c['text'], design_ref=c['design']),
                               level_note=c['note'], technique=c['technique']))
        else:
            na.append(dict(property_id=pid, reason=NOT_YET.get(pid, "not yet claimed: model and theorems for this property are under construction "
                                                                "(machine-checked proof applies; see DESIGN.md §8)")))
    m = dict(version=1, setup_cmd="./setup.sh",
             hooks=dict(guard="PYTHON_CAN_J1939_VERIF", enable="none needed: the harness substitutes module attributes (time, threading, queue, send_message) at run time",
                        baseline_off_cmd="cd /repo && /venv/bin/python -m pytest -ra -q -p no:cacheprovider --timeout=900 --continue-on-collection-errors",
                        source_commits=[], add_only=True),
             engines=[dict(name="lean4-proof+correspondence", path="lean/ + vlib/ + tools/", serves_properties=sorted(CLAIMS),
                           kind_free_text="Lean 4 theorems over a model whose leaves are regenerated from the source by a translator and whose "
                                          "control logic is tied to the code by lock-step differential execution under a virtual clock")],
             checks=checks, not_applicable=na,
             notes="All checks: ./check <id> [--tier quick|thorough] [--replay file]; exit 0 ok, 1 violation, 2 infrastructure error.")
    json.dump(m, open(os.path.join(ROOT, 'MANIFEST.json'), 'w'), indent=1)
    print(f"claimed {len(checks)}, not claimed {len(na)}")


if __name__ == '__main__':
    main()
